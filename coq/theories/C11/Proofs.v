From Coq Require Import ZArith List Bool Lia ZifyBool.
From EP Require Import Common.PyCalendar Gen.C11Helpers C11.Model.
Import ListNotations.
Ltac Zify.zify_post_hook ::= Z.to_euclidean_division_equations.
Open Scope Z_scope.

(* ---- the regenerated days_from_common_era is the number of days before 1 January ---- *)
Lemma dfce_ce : forall y, 1 <= y -> days_from_common_era (y - 1) = days_before_year y.
Proof.
  intros y Hy. unfold days_from_common_era, days_before_year.
  destruct (y - 1 >? 0) eqn:E1; [lia|]. destruct (y - 1 >=? -1) eqn:E2; lia.
Qed.
Lemma dfce_bce : forall y, y <= -1 -> days_from_common_era y = days_before_year (y + 1).
Proof.
  intros y Hy. unfold days_from_common_era, days_before_year.
  destruct (y >? 0) eqn:E1; [lia|]. destruct (y >=? -1) eqn:E2.
  - assert (y = -1) by lia. subst. reflexivity.
  - cbv zeta. lia.
Qed.
Lemma dfce_step : forall y, days_before_year (y + 1) - days_before_year y = ylen (isleap y).
Proof. intros y. unfold days_before_year, ylen, isleap. destruct (y mod 4 =? 0) eqn:A, (y mod 100 =? 0) eqn:B, (y mod 400 =? 0) eqn:C; cbn [andb orb negb]; lia. Qed.

(* ---- cycle decomposition (400/100/4/1 years) ---- *)
Lemma D_values : D400 = 146097 /\ D100 = 36524 /\ D4 = 1461.
Proof. vm_compute. repeat split; reflexivity. Qed.

Lemma year_doy_ce_sound : forall N y doy, 0 < N -> year_doy_ce N = (y, doy) ->
  1 <= y /\ days_before_year y + doy = N /\ 0 <= doy < ylen (isleap y).
Proof.
  intros N y doy HN H. unfold year_doy_ce in H. cbv zeta in H.
  destruct D_values as (V400 & V100 & V4). rewrite V400, V100, V4 in H. clear V400 V100 V4.
  remember (N / 146097) as y400. remember (N mod 146097) as r1.
  remember (r1 / 36524) as y100. remember (r1 mod 36524) as r2.
  remember (r2 / 1461) as y4. remember (r2 mod 1461) as r3.
  remember (r3 / 365) as y1. remember (r3 mod 365) as r4.
  assert (B1 : 0 <= r1 < 146097 /\ N = 146097 * y400 + r1) by lia.
  assert (B2 : 0 <= r2 < 36524 /\ r1 = 36524 * y100 + r2) by lia.
  assert (B3 : 0 <= r3 < 1461 /\ r2 = 1461 * y4 + r3) by lia.
  assert (B4 : 0 <= r4 < 365 /\ r3 = 365 * y1 + r4) by lia.
  clear Heqy400 Heqr1 Heqy100 Heqr2 Heqy4 Heqr3 Heqy1 Heqr4.
  assert (0 <= y400 /\ 0 <= y100 <= 4 /\ 0 <= y4 <= 24 /\ 0 <= y1 <= 4) by lia.
  unfold days_before_year, ylen, isleap.
  destruct ((y1 =? 4) || (y100 =? 4)) eqn:E; injection H as <- <-.
  - destruct (y100 =? 4) eqn:E100.
    + assert (y100 = 4) by lia. assert (r2 = 0 /\ y4 = 0 /\ y1 = 0 /\ r3 = 0 /\ r4 = 0) by lia.
      replace (y400 * 400 + y100 * 100 + y4 * 4 + y1 + 1 - 1) with (400 * (y400 + 1)) by lia.
      set (k := y400 + 1). assert (0 < k) by lia.
      replace ((400 * k) mod 4) with 0 by lia. replace ((400 * k) mod 100) with 0 by lia.
      replace ((400 * k) mod 400) with 0 by lia. cbn [Z.eqb andb orb negb]. lia.
    + assert (y1 = 4) by lia. assert (r4 = 0 /\ r3 = 1460 /\ y100 <= 3 /\ y4 <= 23) by lia.
      replace (y400 * 400 + y100 * 100 + y4 * 4 + y1 + 1 - 1) with (4 * (100 * y400 + 25 * y100 + y4 + 1)) by lia.
      set (k := 100 * y400 + 25 * y100 + y4 + 1).
      assert (Hk : k mod 25 <> 0) by (unfold k; lia).
      replace ((4 * k) mod 4) with 0 by lia.
      destruct ((4 * k) mod 100 =? 0) eqn:F; [lia|]. cbn [Z.eqb andb orb negb]. unfold k. lia.
  - assert (y1 <= 3 /\ y100 <= 3) by lia.
    destruct (((y400 * 400 + y100 * 100 + y4 * 4 + y1 + 1) mod 4 =? 0) &&
              (negb ((y400 * 400 + y100 * 100 + y4 * 4 + y1 + 1) mod 100 =? 0)
               || ((y400 * 400 + y100 * 100 + y4 * 4 + y1 + 1) mod 400 =? 0))); lia.
Qed.

Lemma dby_mono : forall a b, a <= b -> days_before_year a <= days_before_year b.
Proof. intros a b H. unfold days_before_year. lia. Qed.
Lemma ylen_pos : forall l, 365 <= ylen l <= 366.
Proof. destruct l; cbn; lia. Qed.

(* a day number has exactly one (year, day-of-year) representation *)
Lemma repr_unique : forall y1 d1 y2 d2,
  days_before_year y1 + d1 = days_before_year y2 + d2 ->
  0 <= d1 < ylen (isleap y1) -> 0 <= d2 < ylen (isleap y2) -> y1 = y2 /\ d1 = d2.
Proof.
  intros y1 d1 y2 d2 E H1 H2.
  assert (y1 = y2); [|subst; lia].
  destruct (Z.lt_trichotomy y1 y2) as [L|[L|L]]; auto; exfalso.
  - pose proof (dby_mono (y1 + 1) y2 ltac:(lia)). pose proof (dfce_step y1). lia.
  - pose proof (dby_mono (y2 + 1) y1 ltac:(lia)). pose proof (dfce_step y2). lia.
Qed.

(* the calendar is symmetric around the leap year 0 *)
Lemma dby_mirror : forall k, days_before_year (1 - k) = - (days_before_year k + 366).
Proof. intros k. unfold days_before_year. lia. Qed.
Lemma isleap_mirror : forall k, isleap (- k) = isleap k.
Proof.
  intros k. unfold isleap.
  assert ((- k) mod 4 =? 0 = (k mod 4 =? 0)) as -> by lia.
  assert ((- k) mod 100 =? 0 = (k mod 100 =? 0)) as -> by lia.
  assert ((- k) mod 400 =? 0 = (k mod 400 =? 0)) as -> by lia. reflexivity.
Qed.

Lemma year_back_bce_eq : forall N,
  year_back_bce N = let '(yc, doy) := year_doy_ce (- N - 366) in (- yc - 1, doy).
Proof.
  intros N. unfold year_back_bce, year_doy_ce. cbv zeta.
  destruct ((_ =? 4) || (_ =? 4)); f_equal; lia.
Qed.

Lemma year_back_bce_sound : forall N y back, N < -366 -> year_back_bce N = (y, back) ->
  y <= -2 /\ days_before_year (y + 2) - back = N /\ 0 <= back < ylen (isleap (y + 1)).
Proof.
  intros N y back HN H. rewrite year_back_bce_eq in H.
  destruct (year_doy_ce (- N - 366)) as (yc, doy) eqn:E. injection H as <- <-.
  destruct (year_doy_ce_sound (- N - 366) yc doy ltac:(lia) E) as (H1 & H2 & H3).
  replace (- yc - 1 + 2) with (1 - yc) by lia. rewrite dby_mirror.
  replace (- yc - 1 + 1) with (- yc) by lia. rewrite isleap_mirror. lia.
Qed.

(* ---- months ---- *)
Fixpoint zseq (a : Z) (n : nat) : list Z := match n with O => [] | S n' => a :: zseq (a + 1) n' end.
Lemma zseq_in : forall n a x, a <= x < a + Z.of_nat n -> In x (zseq a n).
Proof.
  induction n as [|n IH]; intros a x H; [lia|]. cbn [zseq In].
  destruct (Z.eq_dec a x); [left; auto|right; apply IH; lia].
Qed.

Definition months_ok (leap : bool) : bool :=
  forallb (fun m =>
    (days_before_month leap m =? dbm_spec leap (Z.to_nat m)) &&
    forallb (fun d => if d <=? month_len leap m
                      then (let '(m', d') := md_of_doy leap (dbm_spec leap (Z.to_nat m) + d - 1) in (m' =? m) && (d' =? d))
                      else true) (zseq 1 31)) (zseq 1 12).
Lemma months_ok_true : months_ok true = true /\ months_ok false = true.
Proof. vm_compute. split; reflexivity. Qed.

Lemma months_facts : forall leap m, 1 <= m <= 12 ->
  days_before_month leap m = dbm_spec leap (Z.to_nat m) /\
  forall d, 1 <= d <= month_len leap m -> md_of_doy leap (dbm_spec leap (Z.to_nat m) + d - 1) = (m, d).
Proof.
  intros leap m Hm.
  assert (Hok : months_ok leap = true) by (destruct leap; apply months_ok_true).
  unfold months_ok in Hok. rewrite forallb_forall in Hok.
  specialize (Hok m (zseq_in 12 1 m ltac:(lia))). apply andb_true_iff in Hok. destruct Hok as (H1 & H2).
  split; [lia|]. intros d Hd. rewrite forallb_forall in H2.
  assert (d <= 31) by (unfold month_len in Hd; destruct (m =? 2), leap, ((m =? 4) || (m =? 6) || (m =? 9) || (m =? 11)); lia).
  specialize (H2 d (zseq_in 31 1 d ltac:(lia))).
  destruct (d <=? month_len leap m) eqn:E; [|lia].
  destruct (md_of_doy leap (dbm_spec leap (Z.to_nat m) + d - 1)) as (m', d'). f_equal; lia.
Qed.

Definition doy_ok (leap : bool) : bool :=
  forallb (fun m => (dbm_spec leap (Z.to_nat m) + month_len leap m <=? ylen leap) && (0 <=? dbm_spec leap (Z.to_nat m))) (zseq 1 12).
Lemma doy_ok_true : doy_ok true = true /\ doy_ok false = true.
Proof. vm_compute. split; reflexivity. Qed.
Lemma doy_range : forall leap m d, 1 <= m <= 12 -> 1 <= d <= month_len leap m ->
  0 <= dbm_spec leap (Z.to_nat m) + (d - 1) < ylen leap.
Proof.
  intros leap m d Hm Hd.
  assert (Hok : doy_ok leap = true) by (destruct leap; apply doy_ok_true).
  unfold doy_ok in Hok. rewrite forallb_forall in Hok.
  specialize (Hok m (zseq_in 12 1 m ltac:(lia))). lia.
Qed.

(* ---- todelta is the proleptic Gregorian day number ---- *)
Lemma todelta_day_number : forall y m d, valid_date y m d -> todelta_days y m d = day_number y m d.
Proof.
  intros y m d (Hy & Hm & Hd). unfold todelta_days, day_number, astro.
  destruct (y >? 0) eqn:E.
  - rewrite dfce_ce by lia. rewrite (proj1 (months_facts (isleap y) m Hm)). reflexivity.
  - rewrite dfce_bce by lia. rewrite (proj1 (months_facts (isleap (y + 1)) m Hm)). reflexivity.
Qed.

(* ---- round trip ---- *)
Lemma fromdelta_todelta : forall y m d, valid_date y m d ->
  fromdelta_days (todelta_days y m d) = (y, m, d).
Proof.
  intros y m d Hv. rewrite (todelta_day_number y m d Hv). destruct Hv as (Hy & Hm & Hd).
  unfold day_number. set (a := astro y). set (leap := isleap a) in *.
  set (doy := dbm_spec leap (Z.to_nat m) + (d - 1)).
  assert (Hdoy : 0 <= doy < ylen leap) by (apply doy_range; auto).
  assert (Hmd : md_of_doy leap doy = (m, d)).
  { unfold doy. replace (dbm_spec leap (Z.to_nat m) + (d - 1)) with (dbm_spec leap (Z.to_nat m) + d - 1) by lia.
    apply (proj2 (months_facts leap m Hm)). exact Hd. }
  replace (days_before_year a + dbm_spec leap (Z.to_nat m) + (d - 1)) with (days_before_year a + doy) by (unfold doy; lia).
  unfold fromdelta_days.
  assert (Ha : (0 < y /\ a = y) \/ (y < 0 /\ a = y + 1)) by (unfold a, astro; destruct (y >? 0) eqn:E; lia).
  destruct Ha as [(Hpos & Ea)|(Hneg & Ea)].
  - (* CE *)
    assert (Hd1 : days_before_year 1 = 0) by reflexivity.
    assert (0 <= days_before_year a) by (pose proof (dby_mono 1 a ltac:(lia)); lia).
    destruct (days_before_year a + doy >? 0) eqn:E0.
    + unfold fromdelta_ce. destruct (year_doy_ce (days_before_year a + doy)) as (y', doy') eqn:E.
      destruct (year_doy_ce_sound (days_before_year a + doy) y' doy' ltac:(lia) E) as (H1 & H2 & H3).
      destruct (repr_unique y' doy' a doy H2 H3 Hdoy) as (-> & ->).
      fold leap. rewrite Hmd. rewrite Ea. reflexivity.
    + destruct (days_before_year a + doy =? 0) eqn:E1; [|lia].
      assert (Hu : days_before_year a + doy = days_before_year 1 + 0) by lia.
      destruct (repr_unique a doy 1 0 Hu Hdoy ltac:(vm_compute; split; [discriminate|reflexivity])) as (Ha1 & Hd0).
      rewrite Hd0 in Hmd. replace leap with (isleap 1) in Hmd by (unfold leap; rewrite Ha1; reflexivity).
      vm_compute in Hmd. injection Hmd as <- <-. f_equal. f_equal. lia.
  - (* BCE *)
    assert (Hd1 : days_before_year 1 = 0) by reflexivity.
    assert (Hdz : days_before_year 0 = -366) by reflexivity.
    pose proof (dfce_step a) as Hstep. fold leap in Hstep.
    pose proof (dby_mono (a + 1) 1 ltac:(lia)) as Hm1.
    destruct (days_before_year a + doy >? 0) eqn:E0; [lia|].
    destruct (days_before_year a + doy =? 0) eqn:E1; [lia|].
    unfold fromdelta_bce.
    destruct (days_before_year a + doy >=? -366) eqn:E2.
    + (* year -1 *)
      assert (Ha0 : a = 0).
      { destruct (Z.eq_dec a 0); auto. exfalso.
        pose proof (dby_mono (a + 1) 0 ltac:(lia)). lia. }
      assert (y = -1) by lia. subst y.
      replace (366 + (days_before_year a + doy)) with doy by (rewrite Ha0, Hdz; lia).
      replace true with leap by (unfold leap; rewrite Ha0; reflexivity). rewrite Hmd. reflexivity.
    + destruct (year_back_bce (days_before_year a + doy)) as (y', back) eqn:E.
      destruct (year_back_bce_sound (days_before_year a + doy) y' back ltac:(lia) E) as (H1 & H2 & H3).
      destruct (back =? 0) eqn:E3.
      * assert (Hu : days_before_year a + doy = days_before_year (y' + 2) + 0) by lia.
        assert (Hz : 0 <= 0 < ylen (isleap (y' + 2))) by (pose proof (ylen_pos (isleap (y' + 2))); lia).
        destruct (repr_unique a doy (y' + 2) 0 Hu Hdoy Hz) as (Ha1 & Hd0).
        rewrite Hd0 in Hmd. assert (md_of_doy leap 0 = (1, 1)) by (destruct leap; reflexivity).
        rewrite H in Hmd. injection Hmd as <- <-. f_equal. f_equal. lia.
      * pose proof (dfce_step (y' + 1)) as Hs. replace (y' + 1 + 1) with (y' + 2) in Hs by lia.
        assert (Hu : days_before_year a + doy = days_before_year (y' + 1) + (ylen (isleap (y' + 1)) - back)) by lia.
        destruct (repr_unique a doy (y' + 1) _ Hu Hdoy ltac:(lia)) as (Ha1 & Hd0).
        assert (isleap (y' + 1) = leap) by (unfold leap; rewrite Ha1; reflexivity).
        cbv zeta. rewrite H in *. rewrite <- Hd0, Hmd. f_equal. f_equal. lia.
Qed.

(* ---- the other direction: every day number comes back ---- *)
Definition doy_inv_ok (leap : bool) : bool :=
  forallb (fun doy => if doy <? ylen leap
                      then (let '(m, d) := md_of_doy leap doy in
                            (1 <=? m) && (m <=? 12) && (1 <=? d) && (d <=? month_len leap m) &&
                            (dbm_spec leap (Z.to_nat m) + (d - 1) =? doy))
                      else true) (zseq 0 366).
Lemma doy_inv_ok_true : doy_inv_ok true = true /\ doy_inv_ok false = true.
Proof. vm_compute. split; reflexivity. Qed.
Lemma md_of_doy_inv : forall leap doy m d, 0 <= doy < ylen leap -> md_of_doy leap doy = (m, d) ->
  1 <= m <= 12 /\ 1 <= d <= month_len leap m /\ dbm_spec leap (Z.to_nat m) + (d - 1) = doy.
Proof.
  intros leap doy m d Hd E.
  assert (Hok : doy_inv_ok leap = true) by (destruct leap; apply doy_inv_ok_true).
  unfold doy_inv_ok in Hok. rewrite forallb_forall in Hok.
  assert (doy < 366) by (destruct leap; cbn in Hd; lia).
  specialize (Hok doy (zseq_in 366 0 doy ltac:(lia))). rewrite E in Hok.
  destruct (doy <? ylen leap) eqn:E1; lia.
Qed.

Lemma fromdelta_valid : forall N y m d, fromdelta_days N = (y, m, d) ->
  valid_date y m d /\ day_number y m d = N.
Proof.
  intros N y m d H. unfold fromdelta_days in H.
  assert (Hd1 : days_before_year 1 = 0) by reflexivity.
  assert (Hdz : days_before_year 0 = -366) by reflexivity.
  destruct (N >? 0) eqn:E0.
  - unfold fromdelta_ce in H. destruct (year_doy_ce N) as (y', doy) eqn:E.
    destruct (year_doy_ce_sound N y' doy ltac:(lia) E) as (H1 & H2 & H3).
    destruct (md_of_doy (isleap y') doy) as (m', d') eqn:Em. injection H as <- <- <-.
    destruct (md_of_doy_inv _ _ _ _ H3 Em) as (A & B & C).
    unfold valid_date, day_number, astro. destruct (y' >? 0) eqn:Ey; [|lia]. repeat split; try lia.
  - destruct (N =? 0) eqn:E1.
    + injection H as <- <- <-. assert (N = 0) by lia. subst N. split; [|reflexivity].
      unfold valid_date. cbn. lia.
    + unfold fromdelta_bce in H. destruct (N >=? -366) eqn:E2.
      * destruct (md_of_doy true (366 + N)) as (m', d') eqn:Em. injection H as <- <- <-.
        destruct (md_of_doy_inv true (366 + N) m' d' ltac:(unfold ylen; lia) Em) as (A & B & C).
        unfold valid_date, day_number, astro. cbn [Z.gtb Z.compare]. change (-1 + 1) with 0.
        change (isleap 0) with true. rewrite Hdz. repeat split; try lia.
      * destruct (year_back_bce N) as (y', back) eqn:E.
        destruct (year_back_bce_sound N y' back ltac:(lia) E) as (H1 & H2 & H3).
        pose proof (dfce_step (y' + 1)) as Hs. replace (y' + 1 + 1) with (y' + 2) in Hs by lia.
        destruct (back =? 0) eqn:E3.
        -- injection H as <- <- <-. unfold valid_date, day_number, astro.
           destruct (y' + 1 >? 0) eqn:Ey; [lia|]. replace (y' + 1 + 1) with (y' + 2) by lia.
           change (dbm_spec (isleap (y' + 2)) (Z.to_nat 1)) with 0.
           change (month_len (isleap (y' + 2)) 1) with 31. repeat split; try lia.
        -- cbv zeta in H. destruct (md_of_doy (isleap (y' + 1)) (ylen (isleap (y' + 1)) - back)) as (m', d') eqn:Em.
           injection H as <- <- <-.
           destruct (md_of_doy_inv (isleap (y' + 1)) (ylen (isleap (y' + 1)) - back) m' d' ltac:(lia) Em) as (A & B & C).
           unfold valid_date, day_number, astro. destruct (y' >? 0) eqn:Ey; [lia|]. repeat split; try lia.
Qed.

Lemma todelta_fromdelta : forall N, let '(y, m, d) := fromdelta_days N in todelta_days y m d = N.
Proof.
  intros N. destruct (fromdelta_days N) as ((y, m), d) eqn:E.
  destruct (fromdelta_valid N y m d E) as (Hv & Hn). rewrite todelta_day_number; auto.
Qed.

(* ---- instants ---- *)
Lemma from_to_micros : forall y m d tod, valid_date y m d -> 0 <= tod < US_PER_DAY ->
  from_micros (to_micros y m d tod) = (y, m, d, tod).
Proof.
  intros y m d tod Hv Ht. unfold from_micros, to_micros, US_PER_DAY in *.
  replace ((todelta_days y m d * 86400000000 + tod) / 86400000000) with (todelta_days y m d) by lia.
  rewrite fromdelta_todelta by exact Hv. f_equal. lia.
Qed.
Lemma to_from_micros : forall t, let '(y, m, d, tod) := from_micros t in
  to_micros y m d tod = t /\ valid_date y m d /\ 0 <= tod < US_PER_DAY.
Proof.
  intros t. unfold from_micros. destruct (fromdelta_days (t / US_PER_DAY)) as ((y, m), d) eqn:E.
  destruct (fromdelta_valid _ _ _ _ E) as (Hv & Hn). unfold to_micros.
  rewrite todelta_day_number by exact Hv. rewrite Hn. unfold US_PER_DAY. split; [lia|split; [exact Hv|lia]].
Qed.

Lemma add_sub_duration : forall y m d tod dur, valid_date y m d -> 0 <= tod < US_PER_DAY ->
  let '(y1, m1, d1, t1) := add_duration y m d tod dur in add_duration y1 m1 d1 t1 (- dur) = (y, m, d, tod).
Proof.
  intros y m d tod dur Hv Ht. unfold add_duration.
  pose proof (to_from_micros (to_micros y m d tod + dur)) as H.
  destruct (from_micros (to_micros y m d tod + dur)) as (((y1, m1), d1), t1).
  destruct H as (H1 & _). rewrite H1.
  replace (to_micros y m d tod + dur + - dur) with (to_micros y m d tod) by lia.
  apply from_to_micros; assumption.
Qed.

(* ---- adjust_day (regenerated) clamps to the month length ---- *)
Lemma adjust_day_spec : forall y m d, 1 <= m <= 12 -> d <= 31 -> adjust_day y m d = Z.min d (month_len (isleap y) m).
Proof.
  intros y m d Hm Hd. unfold adjust_day, month_len.
  assert (m = 1 \/ m = 2 \/ m = 3 \/ m = 4 \/ m = 5 \/ m = 6 \/ m = 7 \/ m = 8 \/ m = 9 \/ m = 10 \/ m = 11 \/ m = 12) as Hc by lia.
  repeat (destruct Hc as [->|Hc]); try subst m; cbn [Z.eqb Pos.eqb orb]; destruct (isleap y); lia.
Qed.
Lemma add_months_spec : forall y m d k, 1 <= m <= 12 -> d <= 31 ->
  let '(y', m', d') := add_months y m d k in
  y' <> 0 /\ 1 <= m' <= 12 /\ 12 * astro y' + (m' - 1) = 12 * astro y + (m - 1) + k /\
  d' = Z.min d (month_len (isleap (astro y')) m').
Proof.
  intros y m d k Hm Hd. unfold add_months. cbv zeta.
  set (a' := astro y + (m - 1 + k) / 12).
  assert (Ha : astro (if a' >? 0 then a' else a' - 1) = a') by (unfold astro; destruct (a' >? 0) eqn:E; [rewrite E; reflexivity|destruct (a' - 1 >? 0) eqn:E2; lia]).
  rewrite Ha. assert (1 <= (m - 1 + k) mod 12 + 1 <= 12) by lia.
  split; [destruct (a' >? 0) eqn:E; lia|]. split; [lia|]. split; [unfold a'; lia|]. apply adjust_day_spec; lia.
Qed.
