(* C11 property theorems on values with timezones: "comparison operators order values as instants on the timeline;
   adjust-*-to-timezone and the implicit timezone preserve the instant; d2 - d1 equals the true elapsed time".
   Statements only; proofs in ZonedProofs.v. *)
From Coq Require Import ZArith List Bool.
From EP Require Import Common.PyCalendar Gen.C11Helpers C11.Model C11.Zoned C11.ZonedProofs.
From EP Require Gen.C11Shape.
Import ListNotations.
Open Scope Z_scope.

(* the comparison of the code (implicit timezone set on copies of the operands, then AbstractDateTime._compare) is the
   order of the instants, for every pair of values, with or without timezone, and every context *)
Theorem C11_comparison_is_instant_order : forall ctx a b, cmp_impl ctx a b = cmp_spec (imp_of ctx) a b.
Proof. exact cmp_impl_spec. Qed.
Print Assumptions C11_comparison_is_instant_order.

(* and the minus operator returns the elapsed time between the instants *)
Theorem C11_subtraction_is_elapsed_time : forall ctx a b, sub_impl ctx a b = sub_spec (imp_of ctx) a b.
Proof. exact sub_impl_spec. Qed.
Print Assumptions C11_subtraction_is_elapsed_time.

(* comparison and subtraction agree: a op b iff (a - b) op 0; the order is antisymmetric and transitive; eq is the
   equality of instants *)
Theorem C11_comparison_agrees_with_subtraction : forall imp a b, cmp_spec imp a b = (sub_spec imp a b ?= 0).
Proof. exact cmp_sub. Qed.
Print Assumptions C11_comparison_agrees_with_subtraction.
Theorem C11_instant_order_laws : forall imp a b c,
  cmp_spec imp b a = CompOpp (cmp_spec imp a b) /\
  (cmp_spec imp a b = Lt -> cmp_spec imp b c = Lt -> cmp_spec imp a c = Lt) /\
  (cmp_spec imp a b = Eq <-> instant imp a = instant imp b).
Proof. intros. split; [apply cmp_antisym|split; [apply cmp_trans_lt|apply cmp_eq_instants]]. Qed.
Print Assumptions C11_instant_order_laws.

(* the comparison without the implicit timezone (the code before the repair) orders the instants only when the
   implicit timezone is UTC *)
Theorem C11_comparison_without_implicit_timezone_refuted :
  (exists ctx a b, cmp_old ctx a b <> cmp_spec (imp_of ctx) a b) /\
  (forall ctx a b, imp_of ctx = 0 -> cmp_old ctx a b = cmp_spec (imp_of ctx) a b).
Proof. split; [exact cmp_old_refuted|exact cmp_old_utc]. Qed.
Print Assumptions C11_comparison_without_implicit_timezone_refuted.

(* fn:adjust-dateTime-to-timezone: the instant of a value with timezone is preserved (whatever the implicit timezone),
   the result has the requested timezone, a value without timezone keeps its fields, () removes the timezone and keeps
   the fields, and adjusting to the implicit timezone preserves the instant of every value *)
Theorem C11_adjust_preserves_instant : forall imp v z,
  (forall z0, tz v = Some z0 -> instant imp (adjust v (Some z)) = instant imp v) /\
  tz (adjust v (Some z)) = Some z /\
  (tz v = None -> local (adjust v (Some z)) = local v) /\
  adjust v None = {| local := local v; tz := None |} /\
  instant imp (adjust v (Some imp)) = instant imp v.
Proof.
  intros imp v z. split; [intros z0 H; apply (adjust_instant imp v z0 z H)|].
  split; [apply adjust_tz|]. split; [apply adjust_naive|]. split; [apply adjust_remove|apply adjust_implicit].
Qed.
Print Assumptions C11_adjust_preserves_instant.

(* fn:adjust-date-to-timezone: the day that contains the adjusted starting instant *)
Theorem C11_adjust_date_is_containing_day : forall v target,
  let r := adjust v target in let d := adjust_date v target in
  tz d = tz r /\ local d <= local r < local d + US_PER_DAY /\ (local d) mod US_PER_DAY = 0.
Proof. intros v target. cbn zeta. unfold adjust_date; cbn [tz local]. split; [reflexivity|apply day_floor_spec]. Qed.
Print Assumptions C11_adjust_date_is_containing_day.

(* fn:max / fn:min of date/time values: an item of the sequence with the greatest / least instant *)
Theorem C11_extreme_instant : forall imp best l,
  In (extreme true imp best l) (best :: l) /\ In (extreme false imp best l) (best :: l) /\
  (forall x, In x (best :: l) -> instant imp x <= instant imp (extreme true imp best l)) /\
  (forall x, In x (best :: l) -> instant imp (extreme false imp best l) <= instant imp x).
Proof.
  intros. split; [apply extreme_in|]. split; [apply extreme_in|]. split; [apply extreme_max|apply extreme_min].
Qed.
Print Assumptions C11_extreme_instant.

(* non-vacuity: 2000-01-01T12:00:00 and 2000-01-01T17:00:00Z are the same instant when the implicit timezone is -05:00 and
   5 hours apart when it is UTC *)
Example C11_zoned_nonvacuous :
  let a := {| local := to_micros 2000 1 1 43200000000; tz := None |} in
  let b := {| local := to_micros 2000 1 1 61200000000; tz := Some 0 |} in
  cmp_impl (Some (-300)) a b = Eq /\ cmp_impl None a b = Lt /\ sub_impl (Some (-300)) a b = 0 /\
  sub_impl None a b = - 18000000000 /\ cmp_old (Some (-300)) a b = Lt.
Proof. vm_compute. repeat split; reflexivity. Qed.

(* the statements of /repo that the zoned model mirrors (implicit timezone set on copies of the operands of comparisons, of the
   minus operator and of min / max; AbstractDateTime._compare; adjust_datetime) are present in the source as read on this run
   (T-data, harness/shape.py -> Gen/C11Shape.v) *)
Theorem C11_source_shape : Gen.C11Shape.shape_ok = true.
Proof. reflexivity. Qed.
Print Assumptions C11_source_shape.
