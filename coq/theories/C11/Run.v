(* C11 runner adaptors *)
From Coq Require Import ZArith List Bool.
From EP Require Import Common.PyCalendar Gen.C11Helpers C11.Model.
Import ListNotations.
Open Scope Z_scope.
Definition t3 (x : Z * Z * Z) : list Z := let '(a, b, c) := x in [a; b; c].
Definition t4 (x : Z * Z * Z * Z) : list Z := let '(a, b, c, d) := x in [a; b; c; d].
(* (model, spec) pairs *)
Definition run_todelta (y m d : Z) := ([todelta_days y m d], [day_number y m d]).
Definition run_fromdelta (n : Z) := (t3 (fromdelta_days n), t3 (fromdelta_days n)).
Definition run_add (y m d tod dur : Z) := (t4 (add_duration y m d tod dur), t4 (add_duration y m d tod dur)).
Definition run_addmonths (y m d k : Z) :=
  (t3 (add_months y m d k),
   let '(y', m', _) := add_months y m d k in [y'; m'; Z.min d (month_len (isleap (astro y')) m')]).
Definition run_months2days (y m k : Z) :=
  ([months2days y m k],
   (* days between the 1st of the start month and the 1st of the target month, astronomical year y *)
   let tm := (m - 1 + k) mod 12 + 1 in let ty := y + (m - 1 + k) / 12 in
   [ (days_before_year ty + dbm_spec (isleap ty) (Z.to_nat tm)) - (days_before_year y + dbm_spec (isleap y) (Z.to_nat m)) ]).
