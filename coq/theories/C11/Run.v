(* C11 runner adaptors *)
From Coq Require Import ZArith List Bool.
From EP Require Import Common.PyCalendar Gen.C11Helpers C11.Model.
Import ListNotations.
Open Scope Z_scope.
Definition t3 (x : Z * Z * Z) : list Z := let '(a, b, c) := x in [a; b; c].
Definition t4 (x : Z * Z * Z * Z) : list Z := let '(a, b, c, d) := x in [a; b; c; d].
(* (model, spec) pairs *)
Definition run_todelta (y m d : Z) := ([todelta_days y m d], [day_number y m d]).
Definition run_fromdelta (n : Z) := (t3 (fromdelta_days n), t3 (fromdelta_days n)).
Definition run_add (y m d tod dur : Z) := (t4 (add_duration y m d tod dur), t4 (add_duration y m d tod dur)).
Definition run_addmonths (y m d k : Z) :=
  (t3 (add_months y m d k),
   let '(y', m', _) := add_months y m d k in [y'; m'; Z.min d (month_len (isleap (astro y')) m')]).
Definition run_months2days (y m k : Z) :=
  ([months2days y m k],
   (* days between the 1st of the start month and the 1st of the target month, astronomical year y *)
   let tm := (m - 1 + k) mod 12 + 1 in let ty := y + (m - 1 + k) / 12 in
   [ (days_before_year ty + dbm_spec (isleap ty) (Z.to_nat tm)) - (days_before_year y + dbm_spec (isleap y) (Z.to_nat m)) ]).

(* ---- values with timezones (Zoned.v): a value is (year, month, day, time of day in microseconds, timezone) ---- *)
From EP Require Import C11.Zoned.
Definition zv := (Z * Z * Z * Z * option Z)%type.
Definition zoned_of (v : zv) : zoned := let '(y, m, d, tod, t) := v in {| local := to_micros y m d tod; tz := t |}.
Definition ccode (c : comparison) : Z := match c with Lt => -1 | Eq => 0 | Gt => 1 end.
Definition otz (t : option Z) : Z := match t with Some z => z | None => 9999 end.
(* [comparison by the code; by the instants; difference by the code; by the instants] *)
Definition run_zcmp (ctx : option Z) (a b : zv) : list Z :=
  [ccode (cmp_impl ctx (zoned_of a) (zoned_of b)); ccode (cmp_spec (imp_of ctx) (zoned_of a) (zoned_of b));
   sub_impl ctx (zoned_of a) (zoned_of b); sub_spec (imp_of ctx) (zoned_of a) (zoned_of b)].
(* kind 0 dateTime, 1 date, 2 time: the fields of the adjusted value and its timezone *)
Definition run_zadjust (kind : Z) (a : zv) (target : option Z) : list Z :=
  let v := zoned_of a in
  let r := if kind =? 0 then adjust v target else if kind =? 1 then adjust_date v target
           else adjust_time {| local := (local v) mod US_PER_DAY; tz := tz v |} target in
  (if kind =? 2 then [0; 0; 0; local r] else t4 (from_micros (local r))) ++ [otz (tz r)].
(* position (from 0) of the first item with the extreme instant *)
Fixpoint zindex (x : zoned) (l : list zoned) (i : Z) : Z :=
  match l with
  | [] => -1
  | y :: r => if (local x =? local y) && (otz (tz x) =? otz (tz y)) then i else zindex x r (i + 1)
  end.
Definition run_zextreme (mx : bool) (ctx : option Z) (l : list zv) : Z :=
  match map zoned_of l with
  | [] => -1
  | b :: r => zindex (extreme mx (imp_of ctx) b r) (b :: r) 0
  end.

(* ---- component extraction (Components.v) ---- *)
From EP Require Import Gen.C11Components C11.Components.
(* (the six components by the code, by the F&O definition) *)
Definition run_dur (months us : Z) := (dur_impl months us, dur_spec months us).
(* [year; month; day; hours; minutes; seconds in microseconds] of a value, through its timeline offset *)
Definition run_dtc (y m d tod : Z) : list Z := dt_components y m d tod.
Definition run_secs (second micro : Z) : list Z := [seconds_impl second micro; seconds_old second micro].
