(* C11 property theorems *)
From Coq Require Import ZArith List Bool.
From EP Require Import Common.PyCalendar Gen.C11Helpers C11.Model C11.Proofs.
Open Scope Z_scope.

(* todelta is the proleptic Gregorian day number: every valid date, BCE years and years beyond 9999 included *)
Theorem C11_todelta_is_day_number : forall y m d, valid_date y m d -> todelta_days y m d = day_number y m d.
Proof. exact todelta_day_number. Qed.
Print Assumptions C11_todelta_is_day_number.

(* converting a value to its timeline offset and back is the identity ... *)
Theorem C11_delta_roundtrip : forall y m d tod, valid_date y m d -> 0 <= tod < US_PER_DAY ->
  from_micros (to_micros y m d tod) = (y, m, d, tod).
Proof. exact from_to_micros. Qed.
Print Assumptions C11_delta_roundtrip.
(* ... and every offset is the offset of exactly the value fromdelta returns *)
Theorem C11_offset_roundtrip : forall t, let '(y, m, d, tod) := from_micros t in
  to_micros y m d tod = t /\ valid_date y m d /\ 0 <= tod < US_PER_DAY.
Proof. exact to_from_micros. Qed.
Print Assumptions C11_offset_roundtrip.

(* d + dur - dur = d for every dayTimeDuration (microseconds, any sign and size) *)
Theorem C11_add_sub_inverse : forall y m d tod dur, valid_date y m d -> 0 <= tod < US_PER_DAY ->
  let '(y1, m1, d1, t1) := add_duration y m d tod dur in add_duration y1 m1 d1 t1 (- dur) = (y, m, d, tod).
Proof. exact add_sub_duration. Qed.
Print Assumptions C11_add_sub_inverse.

(* d1 + (d2 - d1) = d2 and d2 - d1 is the elapsed time, since both are the difference of instants *)
Theorem C11_diff_elapsed : forall y1 m1 d1 t1 y2 m2 d2 t2, valid_date y2 m2 d2 -> 0 <= t2 < US_PER_DAY ->
  add_duration y1 m1 d1 t1 (to_micros y2 m2 d2 t2 - to_micros y1 m1 d1 t1) = (y2, m2, d2, t2).
Proof.
  intros. unfold add_duration.
  replace (to_micros y1 m1 d1 t1 + (to_micros y2 m2 d2 t2 - to_micros y1 m1 d1 t1)) with (to_micros y2 m2 d2 t2)
    by (generalize (to_micros y2 m2 d2 t2) (to_micros y1 m1 d1 t1); intros; ring).
  apply from_to_micros; assumption.
Qed.
Print Assumptions C11_diff_elapsed.

(* the order of instants is the order of (year, month, day, time): to_micros is strictly monotone, hence injective *)
Theorem C11_instants_injective : forall y1 m1 d1 t1 y2 m2 d2 t2,
  valid_date y1 m1 d1 -> 0 <= t1 < US_PER_DAY -> valid_date y2 m2 d2 -> 0 <= t2 < US_PER_DAY ->
  to_micros y1 m1 d1 t1 = to_micros y2 m2 d2 t2 -> (y1, m1, d1, t1) = (y2, m2, d2, t2).
Proof.
  intros y1 m1 d1 t1 y2 m2 d2 t2 V1 T1 V2 T2 E.
  rewrite <- (from_to_micros y1 m1 d1 t1 V1 T1), <- (from_to_micros y2 m2 d2 t2 V2 T2), E. reflexivity.
Qed.
Print Assumptions C11_instants_injective.

(* the regenerated days_from_common_era counts the days before 1 January (both eras), one leap rule *)
Theorem C11_dfce_spec : forall y,
  (1 <= y -> days_from_common_era (y - 1) = days_before_year y) /\
  (y <= -1 -> days_from_common_era y = days_before_year (y + 1)) /\
  days_before_year (y + 1) - days_before_year y = ylen (isleap y).
Proof. intros y. split; [exact (dfce_ce y)|split; [exact (dfce_bce y)|exact (dfce_step y)]]. Qed.
Print Assumptions C11_dfce_spec.

(* adding a yearMonthDuration moves the month count exactly (astronomical years, so across the BCE/CE boundary
   and beyond 9999 too) and clamps the day to the target month's length *)
Theorem C11_ym_add_clamps : forall y m d k, 1 <= m <= 12 -> d <= 31 ->
  let '(y', m', d') := add_months y m d k in
  y' <> 0 /\ 1 <= m' <= 12 /\ 12 * astro y' + (m' - 1) = 12 * astro y + (m - 1) + k /\
  d' = Z.min d (month_len (isleap (astro y')) m').
Proof. exact add_months_spec. Qed.
Print Assumptions C11_ym_add_clamps.

Example C11_nonvacuous :
  valid_date (-821) 1 1 /\ valid_date 12000 2 29 /\ valid_date (-5) 2 29 /\
  from_micros (to_micros (-821) 1 1 45015000000) = (-821, 1, 1, 45015000000) /\
  add_duration 9999 12 31 86399500000 1000000 = (10000, 1, 1, 500000) /\
  add_months 2000 1 31 1 = (2000, 2, 29) /\ add_months 1 1 31 (-1) = (-1, 12, 31).
Proof. unfold valid_date. vm_compute. repeat split; try discriminate; reflexivity. Qed.
