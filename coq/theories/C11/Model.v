(* C11 model: the day arithmetic of AbstractDateTime.todelta / fromdelta (datatypes/datetime.py 463-555)
   over the helpers re-translated from /repo (Gen/C11Helpers.v), yearMonthDuration addition
   (_operation, 306-322) and the timeline specification.
   Year numbering of the code: no year zero, -1 = 1 BCE, -2 = 2 BCE ...; astronomical year = y (y > 0), y + 1 (y < 0).
   NO proofs here. *)
From Coq Require Import ZArith List Bool.
From EP Require Import Common.PyCalendar Gen.C11Helpers.
Import ListNotations.
Open Scope Z_scope.

Definition mdays (leap : bool) : list Z := if leap then MONTH_DAYS_LEAP else MONTH_DAYS.
(* sum(m_days[m] for m in range(1, month)) *)
Definition days_before_month (leap : bool) (month : Z) : Z :=
  sum_range (fun m => nth (Z.to_nat m) (mdays leap) 0) 1 month.

(* ---- todelta: whole days since 0001-01-01 of the date part (the time of day is added unchanged) ---- *)
Definition todelta_days (year month day : Z) : Z :=
  if year >? 0
  then days_from_common_era (year - 1) + days_before_month (isleap year) month + (day - 1)
  else days_from_common_era year + days_before_month (isleap (year + 1)) month + (day - 1).

(* datetime.datetime(P, 1, 1) + timedelta(days=n): month and day of the n-th day (0-based) of a year *)
Fixpoint md_of_doy_from (leap : bool) (month : Z) (doy : Z) (fuel : nat) : Z * Z :=
  match fuel with
  | O => (month, doy + 1)
  | S f => let len := nth (Z.to_nat month) (mdays leap) 0 in
           if doy <? len then (month, doy + 1) else md_of_doy_from leap (month + 1) (doy - len) f
  end.
Definition md_of_doy (leap : bool) (doy : Z) : Z * Z := md_of_doy_from leap 1 doy 11.

Definition D400 : Z := days_from_common_era 400.
Definition D100 : Z := days_from_common_era 100.
Definition D4 : Z := days_from_common_era 4.

Definition ylen (leap : bool) : Z := if leap then 366 else 365.

(* ---- fromdelta, OverflowError branch with days > 0 (result year > 9999; same arithmetic for every CE year):
        year and 0-based day of the year ---- *)
Definition year_doy_ce (days : Z) : Z * Z :=
  let y400 := days / D400 in let days := days mod D400 in
  let y100 := days / D100 in let days := days mod D100 in
  let y4 := days / D4 in let days := days mod D4 in
  let y1 := days / 365 in let days := days mod 365 in
  let year := y400 * 400 + y100 * 100 + y4 * 4 + y1 + 1 in
  if (y1 =? 4) || (y100 =? 4) then (year - 1, 365) else (year, days).
Definition fromdelta_ce (days : Z) : Z * Z * Z :=
  let '(year, doy) := year_doy_ce days in
  let '(m, d) := md_of_doy (isleap year) doy in (year, m, d).

(* ---- fromdelta, days < -366 (after the fix: "if not days"): year and days counted BACK from 1 January of
        year + 1 (0 = that 1 January itself) ---- *)
Definition year_back_bce (days : Z) : Z * Z :=
  let days := - days - 366 in
  let y400 := days / D400 in let days := days mod D400 in
  let y100 := days / D100 in let days := days mod D100 in
  let y4 := days / D4 in let days := days mod D4 in
  let y1 := days / 365 in let days := days mod 365 in
  let year := - y400 * 400 - y100 * 100 - y4 * 4 - y1 - 2 in
  if (y1 =? 4) || (y100 =? 4) then (year + 1, 365) else (year, days).
Definition fromdelta_bce (days : Z) : Z * Z * Z :=
  if days >=? -366 then
    (* year = -1; dt = datetime(5, 1, 1) + timedelta(days): proxy year 4 is leap *)
    let '(m, d) := md_of_doy true (366 + days) in (-1, m, d)
  else
    let '(year, back) := year_back_bce days in
    if back =? 0 then (year + 1, 1, 1)
    else
      (* dt = datetime(5 if isleap(year+1) else 7, 1, 1) + timedelta(days=-back, ...): counts back from
         1 January of the proxy year into proxy year 4 (leap) or 6 *)
      let leap := isleap (year + 1) in
      let '(m, d) := md_of_doy leap (ylen leap - back) in (year, m, d).

Definition fromdelta_days (days : Z) : Z * Z * Z :=
  if days >? 0 then fromdelta_ce days
  else if days =? 0 then (1, 1, 1)
  else fromdelta_bce days.

(* ---- specification: proleptic Gregorian day number (days since 0001-01-01) over astronomical years ---- *)
Definition astro (year : Z) : Z := if year >? 0 then year else year + 1.
(* ---- adding a yearMonthDuration (months may be negative): _operation, YearMonthDuration case
        (after the fix: astronomical years for the calculation) ---- *)
Definition add_months (year month day months : Z) : Z * Z * Z :=
  let a := astro year in
  let month' := (month - 1 + months) mod 12 + 1 in
  let a' := a + (month - 1 + months) / 12 in
  (if a' >? 0 then a' else a' - 1, month', adjust_day a' month' day).
Definition days_before_year (a : Z) : Z := 365 * (a - 1) + (a - 1) / 4 - (a - 1) / 100 + (a - 1) / 400.
Definition month_len (leap : bool) (month : Z) : Z :=
  if (month =? 2) then (if leap then 29 else 28)
  else if (month =? 4) || (month =? 6) || (month =? 9) || (month =? 11) then 30 else 31.
Definition valid_date (year month day : Z) : Prop :=
  year <> 0 /\ 1 <= month <= 12 /\ 1 <= day <= month_len (isleap (astro year)) month.
Definition valid_dateb (year month day : Z) : bool :=
  negb (year =? 0) && (1 <=? month) && (month <=? 12) && (1 <=? day) && (day <=? month_len (isleap (astro year)) month).
Fixpoint dbm_spec (leap : bool) (month : nat) : Z :=
  match month with O => 0 | S O => 0 | S m => dbm_spec leap m + month_len leap (Z.of_nat m) end.
Definition day_number (year month day : Z) : Z :=
  days_before_year (astro year) + dbm_spec (isleap (astro year)) (Z.to_nat month) + (day - 1).

(* ---- instants: microseconds since 0001-01-01T00:00:00 of a (date, time-of-day in microseconds) value ---- *)
Definition US_PER_DAY : Z := 86400000000.
Definition to_micros (year month day tod : Z) : Z := todelta_days year month day * US_PER_DAY + tod.
Definition from_micros (t : Z) : Z * Z * Z * Z :=
  let '(y, m, d) := fromdelta_days (t / US_PER_DAY) in (y, m, d, t mod US_PER_DAY).
(* dateTime + dayTimeDuration (no timezone): fromdelta(op(todelta, duration)) *)
Definition add_duration (year month day tod dur : Z) : Z * Z * Z * Z := from_micros (to_micros year month day tod + dur).
