(* C11 property theorems: component extraction *)
From Coq Require Import ZArith List Bool.
From EP Require Import Common.PyCalendar Gen.C11Helpers Gen.C11Components Gen.C11Shape C11.Model C11.Components C11.ComponentsProofs.
Import ListNotations.
Open Scope Z_scope.

(* the six *-from-duration functions as they are written in /repo (re-translated on every run) return the F&O
   components of every duration: truncating division of the months and of the seconds, fraction kept in the seconds *)
Theorem C11_duration_components : forall months us, dur_impl months us = dur_spec months us.
Proof. exact dur_impl_spec. Qed.
Print Assumptions C11_duration_components.
(* the components are the value's own: they recompose the months and the seconds exactly ... *)
Theorem C11_duration_components_recompose : forall months us,
  recompose_months (dur_impl months us) = months /\ recompose_us (dur_impl months us) = us.
Proof. intros months us. rewrite dur_impl_spec. apply dur_recompose. Qed.
Print Assumptions C11_duration_components_recompose.
(* ... each has the sign of the value and stays below its unit (a negative duration has non-positive components) *)
Theorem C11_duration_components_bounds : forall months us,
  match dur_impl months us with
  | [y; mo; d; h; mi; s] =>
      (0 <= months -> 0 <= y /\ 0 <= mo < 12) /\ (months <= 0 -> y <= 0 /\ -12 < mo <= 0) /\
      (0 <= us -> 0 <= d /\ 0 <= h < 24 /\ 0 <= mi < 60 /\ 0 <= s < US_PER_MINUTE) /\
      (us <= 0 -> d <= 0 /\ -24 < h <= 0 /\ -60 < mi <= 0 /\ - US_PER_MINUTE < s <= 0)
  | _ => False
  end.
Proof. intros months us. rewrite dur_impl_spec. apply dur_bounds. Qed.
Print Assumptions C11_duration_components_bounds.

(* dateTime: the components read back from the timeline offset of a value are the fields the value was built from -
   every valid date (BCE years and years beyond 9999 included), every time of day with microseconds *)
Theorem C11_datetime_components_own : forall y m d h mi s_us, valid_date y m d ->
  0 <= h < 24 -> 0 <= mi < 60 -> 0 <= s_us < US_PER_MINUTE ->
  dt_components y m d (tod_of h mi s_us) = [y; m; d; h; mi; s_us].
Proof. exact dt_components_own. Qed.
Print Assumptions C11_datetime_components_own.
Theorem C11_time_components_recompose : forall tod, 0 <= tod < US_PER_DAY ->
  tod_of (hour_of tod) (minute_of tod) (seconds_impl (second_of tod) (micro_of tod)) = tod /\
  0 <= hour_of tod < 24 /\ 0 <= minute_of tod < 60 /\ 0 <= second_of tod < 60 /\ 0 <= micro_of tod < US.
Proof. exact tod_recompose. Qed.
Print Assumptions C11_time_components_recompose.
(* before the repair seconds-from-dateTime concatenated the unpadded microsecond field: right exactly when that field
   is zero or has six digits *)
Theorem C11_seconds_old_concatenation : forall second micro, 0 <= micro < US ->
  (seconds_old second micro = seconds_impl second micro <-> micro = 0 \/ 100000 <= micro).
Proof. exact seconds_old_iff. Qed.
Print Assumptions C11_seconds_old_concatenation.
Theorem C11_seconds_old_refuted : exists second micro, 0 <= micro < US /\ seconds_old second micro <> seconds_impl second micro.
Proof. exists 1, 5000. split; [unfold US; split; [discriminate|reflexivity]|vm_compute; discriminate]. Qed.
Print Assumptions C11_seconds_old_refuted.

Example C11_components_nonvacuous :
  dur_impl (-14) (-129784500000) = [-1; -2; -1; -12; -3; -4500000] /\
  dt_components (-44) 3 15 (tod_of 23 59 59999999) = [-44; 3; 15; 23; 59; 59999999] /\ valid_date (-44) 3 15.
Proof. vm_compute. repeat split; discriminate. Qed.
