(* C11 component extraction (F&O 8.1.x *-from-duration, 9.5.x *-from-dateTime / -date / -time).
   Durations: a value is (months, microseconds); the six functions of the code are Gen.C11Components (T-fun, on the
   whole seconds of the value) - dur_impl puts them together with the fractional part, dur_spec is the F&O
   definition (truncating division: every component has the sign of the value).
   dateTime values: (year, month, day, time of day in microseconds); the functions return the fields of the value;
   seconds-from-dateTime is computed from the second and the microsecond fields.  NO proofs here. *)
From Coq Require Import ZArith List Bool.
From EP Require Import Common.PyCalendar Gen.C11Helpers Gen.C11Components C11.Model.
Import ListNotations.
Open Scope Z_scope.

Definition US : Z := 1000000.
Definition US_PER_MINUTE : Z := 60000000.
Definition US_PER_HOUR : Z := 3600000000.

(* ---- durations ---- *)
(* F&O: years = months idiv 12, months = months mod 12 (sign of the dividend), days = seconds idiv 86400,
   hours = (seconds mod 86400) idiv 3600, minutes = (seconds mod 3600) idiv 60, seconds = seconds mod 60 *)
Definition dur_spec (months us : Z) : list Z :=
  [Z.quot months 12; Z.rem months 12; Z.quot us US_PER_DAY; Z.quot (Z.rem us US_PER_DAY) US_PER_HOUR;
   Z.quot (Z.rem us US_PER_HOUR) US_PER_MINUTE; Z.rem us US_PER_MINUTE].
(* the code: Decimal // and % on item.seconds >= 0 (or on its absolute value) are the floor operations, so the integer
   components depend on the whole seconds only, and seconds % 60 keeps the fraction *)
Definition whole (us : Z) : Z := Z.sgn us * (Z.abs us / US).
Definition frac (us : Z) : Z := Z.sgn us * (Z.abs us mod US).
Definition dur_impl (months us : Z) : list Z :=
  [years_from_duration months; months_from_duration months; days_from_duration (whole us);
   hours_from_duration (whole us); minutes_from_duration (whole us); seconds_from_duration (whole us) * US + frac us].
Definition recompose_months (c : list Z) : Z := nth 0 c 0 * 12 + nth 1 c 0.
Definition recompose_us (c : list Z) : Z :=
  nth 2 c 0 * US_PER_DAY + nth 3 c 0 * US_PER_HOUR + nth 4 c 0 * US_PER_MINUTE + nth 5 c 0.

(* ---- dateTime / date / time ---- *)
Definition tod_of (h mi s_us : Z) : Z := h * US_PER_HOUR + mi * US_PER_MINUTE + s_us.
(* hour, minute, second and microsecond fields of a time of day *)
Definition hour_of (tod : Z) : Z := tod / US_PER_HOUR.
Definition minute_of (tod : Z) : Z := (tod / US_PER_MINUTE) mod 60.
Definition second_of (tod : Z) : Z := (tod / US) mod 60.
Definition micro_of (tod : Z) : Z := tod mod US.
(* seconds-from-dateTime / seconds-from-time, in microseconds: item.second + item.microsecond / 1000000 *)
Definition seconds_impl (second micro : Z) : Z := second * US + micro.
(* before the repair: Decimal('{}.{}'.format(second, microsecond)) - the digits of the microsecond field, unpadded,
   after the point: microsecond / 10^(number of its digits) *)
Definition ndigits (n : Z) : Z :=
  if n <? 10 then 1 else if n <? 100 then 2 else if n <? 1000 then 3 else if n <? 10000 then 4
  else if n <? 100000 then 5 else 6.
Definition seconds_old (second micro : Z) : Z :=
  if micro =? 0 then second * US else second * US + micro * 10 ^ (6 - ndigits micro).
(* [year; month; day; hours; minutes; seconds in microseconds] of the value at the timeline offset of (y, m, d, tod) *)
Definition dt_components (y m d tod : Z) : list Z :=
  let '(y', m', d', tod') := from_micros (to_micros y m d tod) in
  [y'; m'; d'; hour_of tod'; minute_of tod'; seconds_impl (second_of tod') (micro_of tod')].
