(* C11 component extraction: proofs *)
From Coq Require Import ZArith List Bool Lia ZifyBool.
From EP Require Import Common.PyCalendar Gen.C11Helpers Gen.C11Components C11.Model C11.Proofs C11.Components.
Import ListNotations.
Ltac Zify.zify_post_hook ::= Z.to_euclidean_division_equations.
Open Scope Z_scope.

(* ---- durations: the regenerated functions are the truncating division of F&O ---- *)
Lemma years_quot : forall m, years_from_duration m = Z.quot m 12.
Proof. intros m. unfold years_from_duration. destruct (m >=? 0) eqn:E; lia. Qed.
Lemma months_rem : forall m, months_from_duration m = Z.rem m 12.
Proof. intros m. unfold months_from_duration. destruct (m >=? 0) eqn:E; lia. Qed.

Lemma whole_frac_cases : forall us,
  (0 <= us /\ whole us = us / US /\ frac us = us mod US) \/
  (us < 0 /\ whole us = - ((- us) / US) /\ frac us = - ((- us) mod US)).
Proof.
  intros us. unfold whole, frac. destruct (Z.lt_trichotomy us 0) as [H|[H|H]].
  - right. rewrite (Z.sgn_neg us H). rewrite (Z.abs_neq us) by lia. lia.
  - left. subst us. cbn. lia.
  - left. rewrite (Z.sgn_pos us H). rewrite (Z.abs_eq us) by lia. lia.
Qed.

Lemma days_quot : forall us, days_from_duration (whole us) = Z.quot us US_PER_DAY.
Proof.
  intros us. unfold days_from_duration, US_PER_DAY.
  destruct (whole_frac_cases us) as [(H & W & _)|(H & W & _)]; rewrite W; unfold US in *;
    match goal with |- context [?a >=? 0] => destruct (a >=? 0) eqn:E end; lia.
Qed.
Lemma hours_quot : forall us, hours_from_duration (whole us) = Z.quot (Z.rem us US_PER_DAY) US_PER_HOUR.
Proof.
  intros us. unfold hours_from_duration, US_PER_DAY, US_PER_HOUR.
  destruct (whole_frac_cases us) as [(H & W & _)|(H & W & _)]; rewrite W; unfold US in *;
    match goal with |- context [?a >=? 0] => destruct (a >=? 0) eqn:E end; lia.
Qed.
Lemma minutes_quot : forall us, minutes_from_duration (whole us) = Z.quot (Z.rem us US_PER_HOUR) US_PER_MINUTE.
Proof.
  intros us. unfold minutes_from_duration, US_PER_MINUTE, US_PER_HOUR.
  destruct (whole_frac_cases us) as [(H & W & _)|(H & W & _)]; rewrite W; unfold US in *;
    match goal with |- context [?a >=? 0] => destruct (a >=? 0) eqn:E end; lia.
Qed.
Lemma seconds_rem : forall us, seconds_from_duration (whole us) * US + frac us = Z.rem us US_PER_MINUTE.
Proof.
  intros us. unfold seconds_from_duration, US_PER_MINUTE.
  destruct (whole_frac_cases us) as [(H & W & F)|(H & W & F)]; rewrite W, F; unfold US in *;
    match goal with |- context [?a >=? 0] => destruct (a >=? 0) eqn:E end; lia.
Qed.

Lemma dur_impl_spec : forall months us, dur_impl months us = dur_spec months us.
Proof.
  intros months us. unfold dur_impl, dur_spec.
  rewrite years_quot, months_rem, days_quot, hours_quot, minutes_quot, seconds_rem. reflexivity.
Qed.

Lemma dur_recompose : forall months us,
  recompose_months (dur_spec months us) = months /\ recompose_us (dur_spec months us) = us.
Proof.
  intros months us. unfold recompose_months, recompose_us, dur_spec, US_PER_DAY, US_PER_HOUR, US_PER_MINUTE. cbn [nth].
  split; lia.
Qed.

(* every component has the sign of the value and stays below its unit *)
Lemma dur_bounds : forall months us,
  match dur_spec months us with
  | [y; mo; d; h; mi; s] =>
      (0 <= months -> 0 <= y /\ 0 <= mo < 12) /\ (months <= 0 -> y <= 0 /\ -12 < mo <= 0) /\
      (0 <= us -> 0 <= d /\ 0 <= h < 24 /\ 0 <= mi < 60 /\ 0 <= s < US_PER_MINUTE) /\
      (us <= 0 -> d <= 0 /\ -24 < h <= 0 /\ -60 < mi <= 0 /\ - US_PER_MINUTE < s <= 0)
  | _ => False
  end.
Proof.
  intros months us. unfold dur_spec, US_PER_DAY, US_PER_HOUR, US_PER_MINUTE.
  split; [|split; [|split]]; intros; lia.
Qed.

(* ---- dateTime ---- *)
Lemma fields_of_tod : forall h mi s_us, 0 <= h < 24 -> 0 <= mi < 60 -> 0 <= s_us < US_PER_MINUTE ->
  let tod := tod_of h mi s_us in
  0 <= tod < US_PER_DAY /\ hour_of tod = h /\ minute_of tod = mi /\
  seconds_impl (second_of tod) (micro_of tod) = s_us.
Proof.
  intros h mi s Hh Hm Hs. unfold tod_of, hour_of, minute_of, second_of, micro_of, seconds_impl,
    US_PER_DAY, US_PER_HOUR, US_PER_MINUTE, US in *. cbv zeta. repeat split; lia.
Qed.

Lemma dt_components_own : forall y m d h mi s_us, valid_date y m d ->
  0 <= h < 24 -> 0 <= mi < 60 -> 0 <= s_us < US_PER_MINUTE ->
  dt_components y m d (tod_of h mi s_us) = [y; m; d; h; mi; s_us].
Proof.
  intros y m d h mi s V Hh Hm Hs. unfold dt_components.
  destruct (fields_of_tod h mi s Hh Hm Hs) as (R & A & B & C).
  rewrite (from_to_micros y m d _ V R). rewrite A, B, C. reflexivity.
Qed.

(* the seconds component recomposes the time of day together with hours and minutes, for every time of day *)
Lemma tod_recompose : forall tod, 0 <= tod < US_PER_DAY ->
  tod_of (hour_of tod) (minute_of tod) (seconds_impl (second_of tod) (micro_of tod)) = tod /\
  0 <= hour_of tod < 24 /\ 0 <= minute_of tod < 60 /\ 0 <= second_of tod < 60 /\ 0 <= micro_of tod < US.
Proof.
  intros tod H. unfold tod_of, hour_of, minute_of, second_of, micro_of, seconds_impl,
    US_PER_DAY, US_PER_HOUR, US_PER_MINUTE, US in *. repeat split; lia.
Qed.

(* the old string concatenation is right exactly when the microsecond field has six digits (or is zero) *)
Lemma seconds_old_iff : forall second micro, 0 <= micro < US ->
  (seconds_old second micro = seconds_impl second micro <-> micro = 0 \/ 100000 <= micro).
Proof.
  intros second micro H. unfold seconds_old, seconds_impl, ndigits, US in *.
  destruct (micro =? 0) eqn:E0; [split; lia|].
  destruct (micro <? 10) eqn:E1; [change (10 ^ (6 - 1)) with 100000; split; lia|].
  destruct (micro <? 100) eqn:E2; [change (10 ^ (6 - 2)) with 10000; split; lia|].
  destruct (micro <? 1000) eqn:E3; [change (10 ^ (6 - 3)) with 1000; split; lia|].
  destruct (micro <? 10000) eqn:E4; [change (10 ^ (6 - 4)) with 100; split; lia|].
  destruct (micro <? 100000) eqn:E5; [change (10 ^ (6 - 5)) with 10; split; lia|].
  change (10 ^ (6 - 6)) with 1. split; lia.
Qed.
