(* C13 runner adaptors: encode results of the model as nested lists of Z for the harness. *)
From Coq Require Import ZArith List Bool.
From EP Require Import C13.Model.
Import ListNotations.
Open Scope Z_scope.

Definition enc_item (i : item) : list Z := match i with Single c => [c] | Range a b => [a; b] end.
Definition enc (l : list item) : list (list Z) := map enc_item l.
Definition b2z (b : bool) : Z := if b then 1 else 0.

(* op sequence from a start list: (model list, model membership bits, spec bits) on probe points *)
Definition run_ops (s : list item) (ops : list op) (probes : list Z)
  : list (list Z) * list Z * list Z :=
  let r := fold_left apply_op ops s in
  (enc r, map (fun x => b2z (den r x)) probes,
   map (fun x => b2z (fold_left apply_set_op ops (den s) x)) probes).

Definition run_update (s o : list item) : list (list Z) := enc (update s o).
Definition run_diffupdate (s o : list item) : list (list Z) := enc (difference_update s o).
Definition run_icp (o : list item) (reverse : bool) : list (list Z) := enc (iter_code_points o reverse).
Definition run_complement (s : list item) : list (list Z) :=
  match complement s with Some r => enc r | None => [[-1]] end.
Definition run_norm (s : list item) : list (list Z) := enc (norm s).
