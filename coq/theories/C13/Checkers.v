(* Verified checkers on range lists: statements about all 0x110000 code points are proved by
   vm_compute on a few thousand ranges. *)
From Coq Require Import ZArith List Bool Lia ZifyBool.
From EP Require Import C13.Model C13.Proofs.
Import ListNotations.
Open Scope Z_scope.

Definition item_eqb (i j : item) : bool :=
  match i, j with
  | Single a, Single b => a =? b
  | Range a b, Range c d => (a =? c) && (b =? d)
  | _, _ => false
  end.
Fixpoint list_eqb (a b : list item) : bool :=
  match a, b with
  | [], [] => true
  | i :: a', j :: b' => item_eqb i j && list_eqb a' b'
  | _, _ => false
  end.
Lemma item_eqb_eq : forall i j, item_eqb i j = true -> i = j.
Proof. intros [a|a b] [c|c d]; cbn; intros H; try discriminate; f_equal; lia. Qed.
Lemma list_eqb_eq : forall a b, list_eqb a b = true -> a = b.
Proof.
  induction a as [|i a IH]; intros [|j b]; cbn; intros H; try discriminate; auto.
  apply andb_true_iff in H. destruct H as (H1 & H2). f_equal; [apply item_eqb_eq|apply IH]; auto.
Qed.

(* equal denotation *)
Definition eq_den (a b : list item) : bool := slob 0 a && slob 0 b && list_eqb (norm a) (norm b).
Lemma eq_den_sound : forall a b, eq_den a b = true -> forall x, den a x = den b x.
Proof.
  intros a b H x. unfold eq_den in H. rewrite !andb_true_iff in H. destruct H as ((Ha & Hb) & He).
  apply slob_slo in Ha. apply slob_slo in Hb. apply list_eqb_eq in He.
  rewrite <- (norm_den a x 0 Ha), <- (norm_den b x 0 Hb), He. reflexivity.
Qed.

Fixpoint forall2b {A B} (f : A -> B -> bool) (l1 : list A) (l2 : list B) : bool :=
  match l1, l2 with
  | [], [] => true
  | a :: r1, b :: r2 => f a b && forall2b f r1 r2
  | _, _ => false
  end.
Lemma forall2b_sound : forall A B (f : A -> B -> bool) (P : A -> B -> Prop),
  (forall a b, f a b = true -> P a b) -> forall l1 l2, forall2b f l1 l2 = true -> Forall2 P l1 l2.
Proof.
  intros A B f P Hf. induction l1 as [|a r1 IH]; intros [|b r2]; cbn; intros H; try discriminate; constructor.
  - apply Hf. apply andb_true_iff in H. tauto.
  - apply IH. apply andb_true_iff in H. tauto.
Qed.

(* union of a list of well-formed lists *)
Definition union_all (ls : list (list item)) : list item := fold_left ior ls [].
Lemma union_all_spec : forall ls s, WF s -> Forall WF ls ->
  WF (fold_left ior ls s) /\ forall x, den (fold_left ior ls s) x = den s x || existsb (fun l => den l x) ls.
Proof.
  induction ls as [|l ls IH]; intros s Hs Hl; cbn [fold_left existsb].
  - split; auto. intros. rewrite orb_false_r. reflexivity.
  - inversion Hl; subst. destruct (ior_spec s l Hs H1) as (Hw & Hd).
    destruct (IH _ Hw H2) as (H3 & H4). split; auto. intros x. rewrite H4, Hd, orb_assoc. reflexivity.
Qed.
Lemma union_all_den : forall ls, Forall WF ls ->
  forall x, den (union_all ls) x = existsb (fun l => den l x) ls.
Proof.
  intros ls Hf x. unfold union_all. destruct (union_all_spec ls [] I Hf) as (_ & Hd). rewrite Hd. reflexivity.
Qed.
Lemma den_full : forall x, 0 <= x < 1114112 -> den [Range 0 1114112] x = true.
Proof. intros x Hx. cbn [den]. unfold in_item. cbn [lo hi]. lia. Qed.
Definition is_union (whole : list item) (parts : list (list item)) : bool :=
  forallb wfb parts && eq_den whole (union_all parts).
Lemma is_union_sound : forall whole parts, is_union whole parts = true ->
  forall x, den whole x = existsb (fun l => den l x) parts.
Proof.
  intros whole parts H x. unfold is_union in H. apply andb_true_iff in H. destruct H as (Hw & He).
  rewrite (eq_den_sound _ _ He x). unfold union_all.
  assert (Hf : Forall WF parts).
  { apply Forall_forall. intros l Hl. apply wfb_WF. rewrite forallb_forall in Hw. auto. }
  destruct (union_all_spec parts [] I Hf) as (_ & Hd). rewrite Hd. reflexivity.
Qed.

(* pairwise disjointness *)
Definition items_disjoint (i j : item) : bool := (hi i <=? lo j) || (hi j <=? lo i).
Definition disjointb (a b : list item) : bool :=
  forallb (fun i => forallb (items_disjoint i) b) a.
Lemma den_true_in : forall l x, den l x = true -> exists i, In i l /\ in_item i x = true.
Proof.
  induction l as [|i r IH]; cbn; intros x H; [discriminate|].
  apply orb_true_iff in H. destruct H as [H|H]; [exists i; auto|].
  destruct (IH _ H) as (j & Hj & Hx). exists j. auto.
Qed.
Lemma disjointb_sound : forall a b, disjointb a b = true -> forall x, den a x && den b x = false.
Proof.
  intros a b H x. destruct (den a x) eqn:Da; [|reflexivity]. destruct (den b x) eqn:Db; [|reflexivity].
  exfalso. destruct (den_true_in _ _ Da) as (i & Hi & Hix). destruct (den_true_in _ _ Db) as (j & Hj & Hjx).
  unfold disjointb in H. rewrite forallb_forall in H. specialize (H i Hi).
  rewrite forallb_forall in H. specialize (H j Hj). unfold items_disjoint, in_item in *. lia.
Qed.
Fixpoint pairwise_disjointb (ls : list (list item)) : bool :=
  match ls with [] => true | l :: r => forallb (disjointb l) r && pairwise_disjointb r end.
Lemma pairwise_disjointb_sound : forall ls, pairwise_disjointb ls = true ->
  ForallOrdPairs (fun a b => forall x, den a x && den b x = false) ls.
Proof.
  induction ls as [|l r IH]; cbn; intros H; constructor.
  - apply andb_true_iff in H. destruct H as (H & _). apply Forall_forall. intros b Hb.
    rewrite forallb_forall in H. apply disjointb_sound. auto.
  - apply IH. apply andb_true_iff in H. tauto.
Qed.
