(* C13 proofs: denotation and well-formedness of every mutating operation of the
   UnicodeSubset model, lifted to every operation sequence. *)
From Coq Require Import ZArith List Bool Lia ZifyBool.
From EP Require Import C13.Model.
Import ListNotations.
Open Scope Z_scope.

(* ------------------------------------------------------------------ *)
(* chains: a <= lo i1 < hi i1 <= lo i2 < ... < hi in <= z               *)
Fixpoint chain (a : Z) (l : list item) (z : Z) : Prop :=
  match l with
  | [] => a <= z
  | i :: r => a <= lo i /\ lo i < hi i /\ chain (hi i) r z
  end.
Fixpoint chaind (z : Z) (rl : list item) (a : Z) : Prop :=
  match rl with
  | [] => a <= z
  | i :: r => hi i <= z /\ lo i < hi i /\ chaind (lo i) r a
  end.

Lemma chain_le : forall l a z, chain a l z -> a <= z.
Proof. induction l as [|i r IH]; cbn; intros a z H; [lia|]. destruct H as (H1 & H2 & H3). apply IH in H3. lia. Qed.
Lemma chaind_le : forall l a z, chaind z l a -> a <= z.
Proof. induction l as [|i r IH]; cbn; intros a z H; [lia|]. destruct H as (H1 & H2 & H3). apply IH in H3. lia. Qed.

Lemma chain_weak : forall l a a' z z', chain a l z -> a' <= a -> z <= z' -> chain a' l z'.
Proof.
  induction l as [|i r IH]; cbn; intros a a' z z' H Ha Hz; [lia|].
  destruct H as (H1 & H2 & H3). repeat split; try lia. eapply IH; eauto. lia.
Qed.
Lemma chaind_weak : forall l a a' z z', chaind z l a -> a' <= a -> z <= z' -> chaind z' l a'.
Proof.
  induction l as [|i r IH]; cbn; intros a a' z z' H Ha Hz; [lia|].
  destruct H as (H1 & H2 & H3). repeat split; try lia. eapply IH; eauto. lia.
Qed.

Lemma chain_app : forall l1 l2 a z, chain a (l1 ++ l2) z <-> exists m, chain a l1 m /\ chain m l2 z.
Proof.
  induction l1 as [|i r IH]; cbn; intros l2 a z.
  - split.
    + intros H. exists a. split; [lia|exact H].
    + intros (m & Hm & H). eapply chain_weak; eauto; lia.
  - split.
    + intros (H1 & H2 & H3). apply IH in H3. destruct H3 as (m & Ha & Hb). exists m. tauto.
    + intros (m & (H1 & H2 & H3) & H4). repeat split; auto. apply IH. exists m. tauto.
Qed.
Lemma chaind_app : forall l1 l2 a z, chaind z (l1 ++ l2) a <-> exists m, chaind z l1 m /\ chaind m l2 a.
Proof.
  induction l1 as [|i r IH]; cbn; intros l2 a z.
  - split.
    + intros H. exists z. split; [lia|exact H].
    + intros (m & Hm & H). eapply chaind_weak; eauto; lia.
  - split.
    + intros (H1 & H2 & H3). apply IH in H3. destruct H3 as (m & Ha & Hb). exists m. tauto.
    + intros (m & (H1 & H2 & H3) & H4). repeat split; auto. apply IH. exists m. tauto.
Qed.

Lemma chain_rev : forall l a z, chain a l z <-> chaind z (rev l) a.
Proof.
  induction l as [|i r IH]; cbn [rev]; intros a z.
  - cbn. tauto.
  - rewrite chaind_app. cbn [chain chaind]. split.
    + intros (H1 & H2 & H3). exists (hi i). split; [apply IH; exact H3|]. cbn. lia.
    + intros (m & Hm & (H1 & H2 & H3)). repeat split; try lia.
      apply IH. eapply chaind_weak; eauto; lia.
Qed.
Lemma chaind_rev : forall l a z, chaind z l a <-> chain a (rev l) z.
Proof. intros. rewrite chain_rev, rev_involutive. tauto. Qed.

Lemma WF_chain : forall l, WF l -> forall a, (match l with [] => True | i :: _ => a <= lo i end) ->
  exists z, chain a l z.
Proof.
  induction l as [|i r IH]; cbn [WF]; intros H a Ha.
  - exists a. cbn. lia.
  - destruct H as (H1 & H2 & H3). destruct (IH H3 (hi i)) as (z & Hz).
    + destruct r; auto.
    + exists z. cbn. tauto.
Qed.
Lemma chain_WF : forall l a z, chain a l z -> WF l.
Proof.
  induction l as [|i r IH]; cbn; intros a z H; auto.
  destruct H as (H1 & H2 & H3). split; [exact H2|]. split; [|eapply IH; eauto].
  destruct r as [|j r']; auto. cbn in H3. lia.
Qed.
Lemma wfb_WF : forall l, wfb l = true <-> WF l.
Proof.
  induction l as [|i r IH]; cbn [wfb WF]; [tauto|].
  rewrite !andb_true_iff, IH. destruct r as [|j r']; rewrite ?Z.ltb_lt, ?Z.leb_le; intuition.
Qed.

(* ------------------------------------------------------------------ *)
(* denotation facts                                                    *)
Lemma den_app : forall l1 l2 x, den (l1 ++ l2) x = den l1 x || den l2 x.
Proof. induction l1 as [|i r IH]; cbn; intros; auto. rewrite IH, orb_assoc. reflexivity. Qed.
Lemma den_rev : forall l x, den (rev l) x = den l x.
Proof.
  induction l as [|i r IH]; cbn; intros; auto. rewrite den_app, IH. cbn.
  rewrite orb_false_r. apply orb_comm.
Qed.
Lemma chain_den_bounds : forall l a z x, chain a l z -> den l x = true -> a <= x < z.
Proof.
  induction l as [|i r IH]; cbn; intros a z x H D; [discriminate|].
  destruct H as (H1 & H2 & H3). pose proof (chain_le _ _ _ H3).
  apply orb_true_iff in D. destruct D as [D|D].
  - unfold in_item in D. lia.
  - specialize (IH _ _ _ H3 D). lia.
Qed.
Lemma chaind_den_bounds : forall l a z x, chaind z l a -> den l x = true -> a <= x < z.
Proof.
  intros l a z x H D. apply chaind_rev in H. rewrite <- den_rev in D.
  eapply chain_den_bounds; eauto.
Qed.
Lemma den_false_above : forall l a z x, chain a l z -> z <= x -> den l x = false.
Proof.
  intros. destruct (den l x) eqn:D; auto. pose proof (chain_den_bounds _ _ _ _ H D). lia.
Qed.
Lemma den_false_below : forall l a z x, chain a l z -> x < a -> den l x = false.
Proof.
  intros. destruct (den l x) eqn:D; auto. pose proof (chain_den_bounds _ _ _ _ H D). lia.
Qed.
Lemma dend_false_above : forall l a z x, chaind z l a -> z <= x -> den l x = false.
Proof.
  intros. destruct (den l x) eqn:D; auto. pose proof (chaind_den_bounds _ _ _ _ H D). lia.
Qed.

Definition in_se (s e x : Z) : bool := (s <=? x) && (x <? e).

(* ------------------------------------------------------------------ *)
(* add                                                                  *)
(* Loop invariant of add: either (s, e) are still the bounds of value, or the loop has just
   executed "start_cp = higher_bound; continue", in which case the next stored item starts
   exactly at s and neither insert nor append can be reached. *)
Definition add_inv (l : list item) (v : item) (s e : Z) : Prop :=
  (s = lo v /\ e = hi v) \/ (exists j r, l = j :: r /\ lo j = s /\ e = hi v /\ lo v <= s).

Lemma add_loop_spec : forall l v s e b z,
  chain b l z -> b <= s -> s < e -> add_inv l v s e ->
  chain b (add_loop l v s e) (Z.max z e) /\
  forall x, den (add_loop l v s e) x = den l x || in_se s e x.
Proof.
  induction l as [|cp rest IH]; intros v s e b z Hc Hb Hse Hinv.
  - destruct Hinv as [[-> ->]|(j & r & Heq & _)]; [|discriminate].
    cbn in *. split; [lia|]. intros x. unfold in_item, in_se. lia.
  - cbn [add_loop]. cbn [chain] in Hc. destruct Hc as (Hc1 & Hc2 & Hc3).
    pose proof (chain_le _ _ _ Hc3) as Hle.
    destruct (e <? lo cp) eqn:E1.
    { destruct Hinv as [[-> ->]|(j & r & Heq & Hj & -> & Hl)].
      - split.
        + cbn [chain]. repeat split; try lia. eapply chain_weak; eauto; lia.
        + intros x. cbn [den]. unfold in_item, in_se. lia.
      - injection Heq as Hq1 Hq2; subst. lia. }
    destruct (s >? hi cp) eqn:E2.
    { assert (Hinv' : add_inv rest v s e).
      { destruct Hinv as [H|(j & r & Heq & Hj & _)]; [left; exact H|].
        injection Heq as Hq1 Hq2; subst. lia. }
      destruct (IH v s e (hi cp) z Hc3 ltac:(lia) Hse Hinv') as (IH1 & IH2).
      split.
      - cbn [chain]. repeat split; auto.
      - intros x. cbn [den]. rewrite IH2. destruct (in_item cp x); reflexivity. }
    assert (Hev : e = hi v) by (destruct Hinv as [[_ H]|(j & r & _ & _ & H & _)]; exact H).
    assert (Hlv : lo v <= s) by (destruct Hinv as [[H _]|(j & r & _ & _ & _ & H)]; lia).
    destruct (e >? hi cp) eqn:E3.
    { destruct rest as [|nx rest'].
      - cbn in Hc3. split.
        + cbn [chain lo hi]. lia.
        + intros x. cbn [den]. unfold in_item, in_se. cbn [lo hi]. lia.
      - cbn zeta. cbn [chain] in Hc3. destruct Hc3 as (Hn1 & Hn2 & Hn3).
        destruct (e <=? lo nx) eqn:E4.
        + split.
          * cbn [chain lo hi]. repeat split; try lia. eapply chain_weak; eauto; lia.
          * intros x. cbn [den]. unfold in_item, in_se. cbn [lo hi].
            destruct (den rest' x); lia.
        + assert (Hinv' : add_inv (nx :: rest') v (lo nx) e).
          { right. exists nx, rest'. repeat split; auto. lia. }
          destruct (IH v (lo nx) e (lo nx) z) as (IH1 & IH2); auto; try lia.
          { cbn [chain]. repeat split; auto. lia. }
          split.
          * cbn [chain lo hi]. repeat split; try lia. exact IH1.
          * intros x. cbn [den] in *. rewrite IH2. unfold in_item, in_se. cbn [lo hi].
            destruct (den rest' x); lia. }
    destruct (s <? lo cp) eqn:E4.
    + split.
      * cbn [chain lo hi]. repeat split; try lia. eapply chain_weak; eauto; lia.
      * intros x. cbn [den]. unfold in_item, in_se. cbn [lo hi]. destruct (den rest x); lia.
    + split.
      * cbn [chain]. repeat split; try lia. eapply chain_weak; eauto; lia.
      * intros x. cbn [den]. unfold in_item, in_se. destruct (den rest x); lia.
Qed.

Lemma add_chain : forall l v b z, chain b l z -> lo v < hi v ->
  chain (Z.min b (lo v)) (add v l) (Z.max z (hi v)).
Proof.
  intros l v b z Hc Hv. unfold add.
  apply (add_loop_spec l v (lo v) (hi v) (Z.min b (lo v)) z); try lia.
  - eapply chain_weak; eauto; lia.
  - left. auto.
Qed.
Lemma add_den : forall l v x, WF l -> lo v < hi v -> den (add v l) x = den l x || in_item v x.
Proof.
  intros l v x Hwf Hv. unfold add.
  destruct (WF_chain l Hwf (Z.min (lo v) (match l with [] => 0 | i :: _ => lo i end))) as (z & Hz).
  { destruct l; auto. lia. }
  destruct (add_loop_spec l v (lo v) (hi v) _ z Hz ltac:(lia) Hv (or_introl (conj eq_refl eq_refl)))
    as (_ & H).
  rewrite H. reflexivity.
Qed.
Lemma add_WF : forall l v, WF l -> lo v < hi v -> WF (add v l).
Proof.
  intros l v Hwf Hv.
  destruct (WF_chain l Hwf (match l with [] => 0 | i :: _ => lo i end)) as (z & Hz).
  { destruct l; auto. lia. }
  eapply chain_WF. eapply add_chain; eauto.
Qed.

(* ------------------------------------------------------------------ *)
(* discard                                                              *)
Lemma piece_lo : forall a b, lo (piece a b) = a.
Proof. intros. unfold piece. destruct (b - a >? 1); reflexivity. Qed.
Lemma piece_hi : forall a b, a < b -> hi (piece a b) = b.
Proof. intros. unfold piece. destruct (b - a >? 1) eqn:E; cbn; lia. Qed.
Lemma in_piece : forall a b x, a < b -> in_item (piece a b) x = in_se a b x.
Proof. intros. unfold in_item. rewrite piece_lo, piece_hi; auto. Qed.

Lemma discard_rev_spec : forall rl s e a z, chaind z rl a -> s < e ->
  chaind z (discard_rev rl s e) a /\
  forall x, den (discard_rev rl s e) x = den rl x && negb (in_se s e x).
Proof.
  induction rl as [|cp rest IH]; intros s e a z Hc Hse.
  - cbn. split; auto.
  - cbn [discard_rev]. cbn [chaind] in Hc. destruct Hc as (Hc1 & Hc2 & Hc3).
    pose proof (chaind_le _ _ _ Hc3) as Hle.
    destruct (IH s e a (lo cp) Hc3 Hse) as (IH1 & IH2).
    destruct (s >=? hi cp) eqn:E1.
    { split; [cbn [chaind]; auto|]. intros x. cbn [den].
      destruct (in_item cp x || den rest x) eqn:D; auto.
      assert (x < hi cp).
      { apply orb_true_iff in D. destruct D as [D|D].
        - unfold in_item in D. lia.
        - pose proof (chaind_den_bounds _ _ _ _ Hc3 D). lia. }
      unfold in_se. lia. }
    destruct (e >=? hi cp) eqn:E2.
    { destruct (s <=? lo cp) eqn:E3.
      - split; [eapply chaind_weak; eauto; lia|].
        intros x. rewrite IH2. cbn [den]. unfold in_item, in_se. destruct (den rest x); lia.
      - assert (lo cp < s) by lia. split.
        + cbn [chaind]. rewrite piece_lo, piece_hi; auto. repeat split; auto; lia.
        + intros x. cbn [den]. rewrite IH2, in_piece; auto. unfold in_item, in_se.
          destruct (den rest x); lia. }
    destruct (e >? lo cp) eqn:E3.
    { assert (Hr : forall x, in_item (if hi cp - e >? 1 then Range e (hi cp) else Single (hi cp - 1)) x
                             = in_se e (hi cp) x).
      { intros x. unfold in_item, in_se. destruct (hi cp - e >? 1) eqn:E; cbn [lo hi]; lia. }
      assert (Hrl : lo (if hi cp - e >? 1 then Range e (hi cp) else Single (hi cp - 1)) = e)
        by (destruct (hi cp - e >? 1) eqn:E; cbn [lo]; lia).
      assert (Hrh : hi (if hi cp - e >? 1 then Range e (hi cp) else Single (hi cp - 1)) = hi cp)
        by (destruct (hi cp - e >? 1) eqn:E; cbn [hi]; lia).
      destruct (s <=? lo cp) eqn:E4.
      - split.
        + cbn [chaind]. rewrite Hrl, Hrh. repeat split; try lia. eapply chaind_weak; eauto; lia.
        + intros x. cbn [den]. rewrite Hr, IH2. unfold in_item, in_se. destruct (den rest x); lia.
      - assert (lo cp < s) by lia. split.
        + cbn [chaind]. rewrite Hrl, Hrh, piece_lo, piece_hi; auto. repeat split; auto; lia.
        + intros x. cbn [den]. rewrite Hr, in_piece, IH2; auto. unfold in_item, in_se.
          destruct (den rest x); lia. }
    split.
    + cbn [chaind]. repeat split; auto.
    + intros x. cbn [den]. rewrite IH2. unfold in_item, in_se. destruct (den rest x); lia.
Qed.

Lemma discard_chain : forall l v a z, chain a l z -> lo v < hi v -> chain a (discard v l) z.
Proof.
  intros l v a z Hc Hv. unfold discard. apply chaind_rev.
  apply discard_rev_spec; auto. apply chain_rev. exact Hc.
Qed.
Lemma discard_den : forall l v x, WF l -> lo v < hi v ->
  den (discard v l) x = den l x && negb (in_item v x).
Proof.
  intros l v x Hwf Hv. unfold discard. rewrite den_rev.
  destruct (WF_chain l Hwf (match l with [] => 0 | i :: _ => lo i end)) as (z & Hz).
  { destruct l; auto. lia. }
  apply chain_rev in Hz.
  destruct (discard_rev_spec _ (lo v) (hi v) _ _ Hz Hv) as (_ & H). rewrite H, den_rev. reflexivity.
Qed.
Lemma discard_WF : forall l v, WF l -> lo v < hi v -> WF (discard v l).
Proof.
  intros l v Hwf Hv.
  destruct (WF_chain l Hwf (match l with [] => 0 | i :: _ => lo i end)) as (z & Hz).
  { destruct l; auto. lia. }
  eapply chain_WF. eapply discard_chain; eauto.
Qed.

(* ------------------------------------------------------------------ *)
(* folds of add / discard over a list of non-empty items               *)

Lemma valid_nonempty : forall v, valid_item v = true -> nonempty v.
Proof. intros [c|a b]; unfold nonempty; cbn; lia. Qed.
Lemma WF_nonempty : forall l, WF l -> Forall nonempty l.
Proof. induction l as [|i r IH]; cbn; intros H; constructor; [tauto|apply IH; tauto]. Qed.

Lemma fold_add_spec : forall vs s, WF s -> Forall nonempty vs ->
  WF (fold_left (fun acc v => add v acc) vs s) /\
  forall x, den (fold_left (fun acc v => add v acc) vs s) x = den s x || den vs x.
Proof.
  induction vs as [|v vs IH]; intros s Hwf Hne; cbn [fold_left].
  - split; auto. intros. cbn. rewrite orb_false_r. reflexivity.
  - inversion Hne as [|? ? Hv Hvs]; subst.
    destruct (IH (add v s) (add_WF _ _ Hwf Hv) Hvs) as (H1 & H2). split; auto.
    intros x. rewrite H2, add_den; auto. cbn [den]. rewrite orb_assoc. reflexivity.
Qed.
Lemma fold_discard_spec : forall vs s, WF s -> Forall nonempty vs ->
  WF (fold_left (fun acc v => discard v acc) vs s) /\
  forall x, den (fold_left (fun acc v => discard v acc) vs s) x = den s x && negb (den vs x).
Proof.
  induction vs as [|v vs IH]; intros s Hwf Hne; cbn [fold_left].
  - split; auto. intros. cbn. rewrite andb_true_r. reflexivity.
  - inversion Hne as [|? ? Hv Hvs]; subst.
    destruct (IH (discard v s) (discard_WF _ _ Hwf Hv) Hvs) as (H1 & H2). split; auto.
    intros x. rewrite H2, discard_den; auto. cbn [den]. rewrite negb_orb, andb_assoc. reflexivity.
Qed.

Lemma Forall_rev' : forall (A : Type) (P : A -> Prop) l, Forall P l -> Forall P (rev l).
Proof. intros. apply Forall_forall. intros x Hx. apply in_rev in Hx. rewrite Forall_forall in H. auto. Qed.

Lemma ior_spec : forall s o, WF s -> WF o ->
  WF (ior s o) /\ forall x, den (ior s o) x = den s x || den o x.
Proof.
  intros s o Hs Ho. unfold ior.
  destruct (fold_add_spec (rev o) s Hs (Forall_rev' _ _ _ (WF_nonempty _ Ho))) as (H1 & H2).
  split; auto. intros x. rewrite H2, den_rev. reflexivity.
Qed.
Lemma isub_spec : forall s o, WF s -> WF o ->
  WF (isub s o) /\ forall x, den (isub s o) x = den s x && negb (den o x).
Proof.
  intros s o Hs Ho. unfold isub.
  destruct (fold_discard_spec (rev o) s Hs (Forall_rev' _ _ _ (WF_nonempty _ Ho))) as (H1 & H2).
  split; auto. intros x. rewrite H2, den_rev. reflexivity.
Qed.

(* points: the code points of a subset, as Single items *)
Lemma zrange_in : forall n a x, In x (zrange a n) <-> a <= x < a + Z.of_nat n.
Proof.
  induction n as [|n IH]; intros a x; cbn [zrange In].
  - lia.
  - rewrite IH. lia.
Qed.
Lemma points_in : forall l x, In x (points l) <-> den l x = true.
Proof.
  induction l as [|i r IH]; intros x; cbn [points flat_map den].
  - cbn. split; [tauto|discriminate].
  - rewrite in_app_iff, orb_true_iff. fold (points r). rewrite IH, zrange_in.
    unfold in_item. lia.
Qed.
Lemma den_singles : forall xs x, den (map Single xs) x = true <-> In x xs.
Proof.
  induction xs as [|y ys IH]; intros x; cbn [map den In].
  - split; [discriminate|tauto].
  - rewrite orb_true_iff, IH. unfold in_item. cbn [lo hi].
    assert (E : ((y <=? x) && (x <? y + 1)) = true <-> y = x) by lia. rewrite E. tauto.
Qed.
Lemma singles_nonempty : forall xs, Forall nonempty (map Single xs).
Proof. induction xs; cbn; constructor; auto. unfold nonempty. cbn. lia. Qed.

Lemma fold_discard_singles : forall xs s,
  fold_left (fun acc x => discard (Single x) acc) xs s
  = fold_left (fun acc v => discard v acc) (map Single xs) s.
Proof. induction xs as [|y ys IH]; intros s; cbn [fold_left map]; auto. Qed.

Lemma bool_eq_iff : forall a b : bool, (a = true <-> b = true) -> a = b.
Proof. intros [|] [|] H; auto; destruct H; intuition congruence. Qed.

Lemma iand_spec : forall s o, WF s -> WF o ->
  WF (iand s o) /\ forall x, den (iand s o) x = den s x && den o x.
Proof.
  intros s o Hs Ho. unfold iand. rewrite fold_discard_singles.
  destruct (isub_spec s o Hs Ho) as (Hw & Hd).
  destruct (fold_discard_spec (map Single (points (isub s o))) s Hs (singles_nonempty _)) as (H1 & H2).
  split; auto. intros x. rewrite H2.
  assert (E : den (map Single (points (isub s o))) x = den (isub s o) x).
  { apply bool_eq_iff. rewrite den_singles, points_in. tauto. }
  rewrite E, Hd. destruct (den s x), (den o x); reflexivity.
Qed.

(* ixor: each code point of o toggles membership once (points of a WF list has no duplicates) *)
Lemma zrange_nodup : forall n a, NoDup (zrange a n).
Proof.
  induction n as [|n IH]; intros a; cbn [zrange]; constructor; auto.
  rewrite zrange_in. lia.
Qed.
Lemma points_nodup : forall l a z, chain a l z -> NoDup (points l).
Proof.
  induction l as [|i r IH]; intros a z Hc; cbn [points flat_map]; [constructor|].
  fold (points r). cbn [chain] in Hc. destruct Hc as (H1 & H2 & H3).
  assert (Hn : forall x, In x (zrange (lo i) (Z.to_nat (hi i - lo i))) -> ~ In x (points r)).
  { intros x Hx Hy. apply zrange_in in Hx. apply points_in in Hy.
    pose proof (chain_den_bounds _ _ _ _ H3 Hy). lia. }
  revert Hn. generalize (zrange_nodup (Z.to_nat (hi i - lo i)) (lo i)).
  generalize (zrange (lo i) (Z.to_nat (hi i - lo i))) as l1.
  induction l1 as [|y l1 IH1]; intros Hnd Hn; cbn [app]; [eapply IH; eauto|].
  inversion Hnd; subst. constructor.
  - rewrite in_app_iff. intros [H|H]; [tauto|]. apply (Hn y); cbn; auto.
  - apply IH1; auto. intros x Hx. apply Hn. cbn; auto.
Qed.

Lemma fold_xor_spec : forall xs s, WF s -> NoDup xs ->
  let f := fun acc x => if den acc x then discard (Single x) acc else add (Single x) acc in
  WF (fold_left f xs s) /\
  forall x, den (fold_left f xs s) x = xorb (den s x) (if in_dec Z.eq_dec x xs then true else false).
Proof.
  induction xs as [|y ys IH]; intros s Hwf Hnd f; cbn [fold_left].
  - split; auto. intros x. destruct (in_dec Z.eq_dec x []) as [H|H]; [destruct H|].
    rewrite xorb_false_r. reflexivity.
  - inversion Hnd as [|? ? Hy Hys]; subst.
    assert (Hne : nonempty (Single y)) by (unfold nonempty; cbn; lia).
    assert (Hw' : WF (f s y)) by (unfold f; destruct (den s y); [apply discard_WF|apply add_WF]; auto).
    destruct (IH (f s y) Hw' Hys) as (H1 & H2). split; [exact H1|].
    intros x. fold f. rewrite H2.
    assert (Hd : den (f s y) x = xorb (den s x) (x =? y)).
    { unfold f. destruct (den s y) eqn:D.
      - rewrite discard_den; auto. unfold in_item. cbn [lo hi].
        destruct (x =? y) eqn:E.
        + assert (x = y) by lia. subst. rewrite D. cbn. lia.
        + rewrite xorb_false_r. destruct (den s x); lia.
      - rewrite add_den; auto. unfold in_item. cbn [lo hi].
        destruct (x =? y) eqn:E.
        + assert (x = y) by lia. subst. rewrite D. cbn. lia.
        + rewrite xorb_false_r. destruct (den s x); lia. }
    rewrite Hd.
    destruct (in_dec Z.eq_dec x ys) as [Hi|Hi]; destruct (in_dec Z.eq_dec x (y :: ys)) as [Hj|Hj].
    + assert (x <> y) by (intros ->; tauto).
      destruct (x =? y) eqn:E; [lia|]. destruct (den s x); reflexivity.
    + exfalso. apply Hj. cbn. auto.
    + destruct Hj as [Hj|Hj]; [|tauto]. subst. rewrite Z.eqb_refl.
      destruct (den s x); reflexivity.
    + assert (x <> y) by (intros ->; apply Hj; cbn; auto).
      destruct (x =? y) eqn:E; [lia|]. destruct (den s x); reflexivity.
Qed.

Lemma ixor_spec : forall s o, WF s -> WF o ->
  WF (ixor s o) /\ forall x, den (ixor s o) x = xorb (den s x) (den o x).
Proof.
  intros s o Hs Ho. unfold ixor.
  destruct (WF_chain o Ho (match o with [] => 0 | i :: _ => lo i end)) as (z & Hz).
  { destruct o; auto. lia. }
  destruct (fold_xor_spec (points o) s Hs (points_nodup _ _ _ Hz)) as (H1 & H2).
  split; auto. intros x. rewrite H2. f_equal.
  destruct (in_dec Z.eq_dec x (points o)) as [H|H]; rewrite points_in in H.
  - auto.
  - destruct (den o x); congruence.
Qed.

(* ------------------------------------------------------------------ *)
(* operation sequences                                                  *)

Lemma apply_op_spec : forall s o, WF s -> valid_op o ->
  WF (apply_op s o) /\ forall x, den (apply_op s o) x = apply_set_op (den s) o x.
Proof.
  intros s [v|v|t|t|t|t] Hs Hv; cbn [apply_op apply_set_op valid_op] in *.
  - split; [apply add_WF; auto|intros; apply add_den; auto].
  - split; [apply discard_WF; auto|intros; apply discard_den; auto].
  - apply ior_spec; auto.
  - apply isub_spec; auto.
  - apply iand_spec; auto.
  - apply ixor_spec; auto.
Qed.

Lemma set_op_ext : forall f g o, (forall x, f x = g x) -> forall x, apply_set_op f o x = apply_set_op g o x.
Proof. intros f g [v|v|t|t|t|t] H x; cbn; rewrite H; reflexivity. Qed.

Lemma ops_spec : forall ops s, WF s -> Forall valid_op ops ->
  WF (fold_left apply_op ops s) /\
  forall x, den (fold_left apply_op ops s) x = fold_left apply_set_op ops (den s) x.
Proof.
  induction ops as [|o ops IH]; intros s Hs Hv; cbn [fold_left].
  - split; auto.
  - inversion Hv as [|? ? Ho Hops]; subst.
    destruct (apply_op_spec s o Hs Ho) as (H1 & H2).
    destruct (IH _ H1 Hops) as (H3 & H4). split; auto.
    intros x. rewrite H4.
    clear - H2. revert H2. generalize (den (apply_op s o)) as f. generalize (apply_set_op (den s) o) as g.
    induction ops as [|o' ops IH']; intros g f H; cbn [fold_left]; auto.
    apply IH'. intros y. apply set_op_ext. exact H.
Qed.

(* ------------------------------------------------------------------ *)
(* complement                                                           *)
Lemma complement_loop_spec : forall l last z r, chain last l z -> 0 <= last -> z <= maxunicode + 1 ->
  complement_loop last l = Some r ->
  chain last r (maxunicode + 1) /\
  forall x, last <= x <= maxunicode -> den r x = negb (den l x).
Proof.
  induction l as [|cp rest IH]; intros last z r Hc H0 Hz Hr.
  - cbn [complement_loop] in Hr. cbn [chain] in Hc. injection Hr as <-.
    destruct (last <? maxunicode) eqn:E1; [|destruct (last =? maxunicode) eqn:E2];
      (split; [cbn [chain lo hi]; unfold maxunicode in *; lia|]); intros x Hx; cbn [den];
      unfold in_item; cbn [lo hi]; unfold maxunicode in *; lia.
  - cbn [complement_loop] in Hr. cbn [chain] in Hc. destruct Hc as (H1 & H2 & H3).
    destruct (complement_loop (hi cp) rest) as [r'|] eqn:R; [|discriminate].
    destruct (IH (hi cp) z r' H3 ltac:(lia) Hz R) as (IH1 & IH2).
    assert (Hbelow : forall x, x < hi cp -> den rest x = false /\ den r' x = false).
    { intros x Hx. split; eapply den_false_below; eauto. }
    destruct (lo cp - last >? 2) eqn:E1; [|destruct (lo cp - last =? 2) eqn:E2;
      [|destruct (lo cp - last =? 1) eqn:E3; [|destruct (lo cp - last =? 0) eqn:E4; [|discriminate]]]];
      injection Hr as <-; unfold maxunicode in *.
    + split; [cbn [chain lo hi]; repeat split; try lia; eapply chain_weak; eauto; lia|].
      intros x Hx. cbn [den]. unfold in_item. cbn [lo hi].
      destruct (Z.lt_ge_cases x (hi cp)) as [Hlt|Hge].
      * destruct (Hbelow x Hlt) as (-> & ->). lia.
      * rewrite IH2 by lia. destruct (den rest x); lia.
    + split; [cbn [chain lo hi]; repeat split; try lia; eapply chain_weak; eauto; lia|].
      intros x Hx. cbn [den]. unfold in_item. cbn [lo hi].
      destruct (Z.lt_ge_cases x (hi cp)) as [Hlt|Hge].
      * destruct (Hbelow x Hlt) as (-> & ->). lia.
      * rewrite IH2 by lia. destruct (den rest x); lia.
    + split; [cbn [chain lo hi]; repeat split; try lia; eapply chain_weak; eauto; lia|].
      intros x Hx. cbn [den]. unfold in_item. cbn [lo hi].
      destruct (Z.lt_ge_cases x (hi cp)) as [Hlt|Hge].
      * destruct (Hbelow x Hlt) as (-> & ->). lia.
      * rewrite IH2 by lia. destruct (den rest x); lia.
    + split; [eapply chain_weak; eauto; lia|].
      intros x Hx. cbn [den]. unfold in_item.
      destruct (Z.lt_ge_cases x (hi cp)) as [Hlt|Hge].
      * destruct (Hbelow x Hlt) as (-> & ->). lia.
      * rewrite IH2 by lia. destruct (den rest x); lia.
Qed.

Lemma complement_total : forall l last z, chain last l z -> exists r, complement_loop last l = Some r.
Proof.
  induction l as [|cp rest IH]; intros last z Hc; cbn [complement_loop]; [eauto|].
  cbn [chain] in Hc. destruct Hc as (H1 & H2 & H3). destruct (IH _ _ H3) as (r & ->).
  destruct (lo cp - last >? 2) eqn:E1; [eauto|].
  destruct (lo cp - last =? 2) eqn:E2; [eauto|].
  destruct (lo cp - last =? 1) eqn:E3; [eauto|].
  destruct (lo cp - last =? 0) eqn:E4; [eauto|]. lia.
Qed.

(* ------------------------------------------------------------------ *)
(* canonical form is extensional                                        *)
Lemma canonb_P : forall l, canonb l = true <-> canonP l.
Proof.
  induction l as [|i r IH]; cbn [canonb canonP]; [tauto|].
  rewrite !andb_true_iff, IH. destruct i as [c|a b], r as [|j r']; cbn [canon_item lo hi];
    rewrite ?Z.ltb_lt; intuition.
Qed.
Lemma canonP_nonempty : forall i, (match i with Single _ => True | Range a b => a + 1 < b end) -> lo i < hi i.
Proof. intros [c|a b]; cbn; lia. Qed.
Lemma canonP_chain : forall l, canonP l -> forall a, (match l with [] => True | i :: _ => a <= lo i end) ->
  exists z, chain a l z.
Proof.
  induction l as [|i r IH]; cbn [canonP]; intros H a Ha.
  - exists a. cbn. lia.
  - destruct H as (H1 & H2 & H3). destruct (IH H3 (hi i + 1)) as (z & Hz).
    + destruct r; auto. lia.
    + exists z. cbn. repeat split; auto. apply canonP_nonempty; auto. eapply chain_weak; eauto; lia.
Qed.

Lemma item_eq_bounds : forall i j,
  (match i with Single _ => True | Range a b => a + 1 < b end) ->
  (match j with Single _ => True | Range a b => a + 1 < b end) ->
  lo i = lo j -> hi i = hi j -> i = j.
Proof. intros [c|a b] [c'|a' b']; cbn; intros; f_equal; lia. Qed.

Lemma canon_ext : forall s t, canonP s -> canonP t -> (forall x, den s x = den t x) -> s = t.
Proof.
  induction s as [|i r IH]; intros t Hs Ht Hext.
  - destruct t as [|j r']; auto. exfalso. cbn [canonP] in Ht. destruct Ht as (H1 & _).
    apply canonP_nonempty in H1. specialize (Hext (lo j)). cbn in Hext. unfold in_item in Hext. lia.
  - destruct t as [|j r'].
    + exfalso. cbn [canonP] in Hs. destruct Hs as (H1 & _).
      apply canonP_nonempty in H1. specialize (Hext (lo i)). cbn in Hext. unfold in_item in Hext. lia.
    + cbn [canonP] in Hs, Ht. destruct Hs as (Hs1 & Hs2 & Hs3). destruct Ht as (Ht1 & Ht2 & Ht3).
      pose proof (canonP_nonempty _ Hs1) as Hi. pose proof (canonP_nonempty _ Ht1) as Hj.
      destruct (canonP_chain r Hs3 (hi i + 1)) as (zr & Hcr). { destruct r; auto; lia. }
      destruct (canonP_chain r' Ht3 (hi j + 1)) as (zt & Hct). { destruct r'; auto; lia. }
      assert (Hlo : lo i = lo j).
      { destruct (Z.lt_trichotomy (lo i) (lo j)) as [H|[H|H]]; auto; exfalso.
        - specialize (Hext (lo i)). cbn [den] in Hext. unfold in_item in Hext.
          rewrite (den_false_below r' _ _ (lo i) Hct) in Hext by lia.
          destruct (den r (lo i)); lia.
        - specialize (Hext (lo j)). cbn [den] in Hext. unfold in_item in Hext.
          rewrite (den_false_below r _ _ (lo j) Hcr) in Hext by lia.
          destruct (den r' (lo j)); lia. }
      assert (Hhi : hi i = hi j).
      { destruct (Z.lt_trichotomy (hi i) (hi j)) as [H|[H|H]]; auto; exfalso.
        - specialize (Hext (hi i)). cbn [den] in Hext. unfold in_item in Hext.
          rewrite (den_false_below r _ _ (hi i) Hcr) in Hext by lia.
          destruct (den r' (hi i)); lia.
        - specialize (Hext (hi j)). cbn [den] in Hext. unfold in_item in Hext.
          rewrite (den_false_below r' _ _ (hi j) Hct) in Hext by lia.
          destruct (den r (hi j)); lia. }
      assert (i = j) by (apply item_eq_bounds; auto). subst j. f_equal.
      apply IH; auto. intros x. specialize (Hext x). cbn [den] in Hext.
      destruct (in_item i x) eqn:D; [|exact Hext].
      unfold in_item in D.
      rewrite (den_false_below r _ _ x Hcr), (den_false_below r' _ _ x Hct) by lia. reflexivity.
Qed.

(* ------------------------------------------------------------------ *)
(* norm: merge touching/overlapping items of a list sorted by lower bound; same denotation.
   Used by the verified table checkers (Tables.v). *)
Fixpoint slo (a : Z) (l : list item) : Prop :=
  match l with [] => True | i :: r => a <= lo i /\ lo i < hi i /\ slo (lo i) r end.
Fixpoint slob (a : Z) (l : list item) : bool :=
  match l with [] => true | i :: r => (a <=? lo i) && (lo i <? hi i) && slob (lo i) r end.
Lemma slob_slo : forall l a, slob a l = true <-> slo a l.
Proof.
  induction l as [|i r IH]; intros a; cbn [slob slo]; [tauto|].
  rewrite !andb_true_iff, IH, Z.leb_le, Z.ltb_lt. tauto.
Qed.
Lemma slo_weak : forall l a a', slo a l -> a' <= a -> slo a' l.
Proof. destruct l as [|i r]; cbn; intros; auto. repeat split; try tauto. lia. Qed.
Lemma chain_slo : forall l a z, chain a l z -> slo a l.
Proof.
  induction l as [|i r IH]; cbn; intros a z H; auto. destruct H as (H1 & H2 & H3).
  repeat split; auto. eapply slo_weak; [eapply IH; eauto|lia].
Qed.

Lemma norm_loop_den : forall l s e x, s < e -> slo s l ->
  den (norm_loop l s e) x = in_se s e x || den l x.
Proof.
  induction l as [|cp rest IH]; intros s e x Hse Hs; cbn [norm_loop].
  - cbn. rewrite in_piece; auto.
  - cbn [slo] in Hs. destruct Hs as (H1 & H2 & H3). destruct (lo cp <=? e) eqn:E.
    + rewrite IH; [|lia|eapply slo_weak; eauto].
      cbn [den]. unfold in_se, in_item. destruct (den rest x); lia.
    + cbn [den]. rewrite in_piece, IH; auto.
Qed.
Lemma norm_den : forall l x a, slo a l -> den (norm l) x = den l x.
Proof.
  intros [|cp rest] x a H; cbn [norm]; auto. cbn [slo] in H. destruct H as (H1 & H2 & H3).
  rewrite norm_loop_den; auto.
Qed.
