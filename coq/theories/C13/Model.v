(* C13 model: UnicodeSubset as an ordered list of code points and half-open ranges.
   Mirrors elementpath/regex/unicode_subsets.py (add: 168-210, discard: 227-271,
   complement: 93-118, __ior__/__isub__/__iand__/__ixor__: 286-354) and
   elementpath/regex/codepoints.py iter_code_points (42-91).
   NO proofs in this file: it must still run when a proof breaks. *)
From Coq Require Import ZArith List Bool.
Import ListNotations.
Open Scope Z_scope.

Inductive item := Single (c : Z) | Range (a b : Z).   (* Range a b is [a, b) *)

Definition lo (i : item) : Z := match i with Single c => c | Range a _ => a end.
Definition hi (i : item) : Z := match i with Single c => c + 1 | Range _ b => b end.
Definition in_item (i : item) (x : Z) : bool := (lo i <=? x) && (x <? hi i).

Fixpoint den (l : list item) (x : Z) : bool :=
  match l with [] => false | i :: r => in_item i x || den r x end.

Definition maxunicode : Z := 1114111.

(* argument check of add/discard: int in [0, maxunicode] or 0 <= a < b <= maxunicode+1 *)
Definition valid_item (v : item) : bool :=
  match v with
  | Single c => (0 <=? c) && (c <=? maxunicode)
  | Range a b => (0 <=? a) && (a <? b) && (b <=? maxunicode + 1)
  end.

(* ---- add: loop "for k, cp in enumerate(code_points)" with carried start_cp/end_cp ---- *)
Fixpoint add_loop (l : list item) (value : item) (s e : Z) : list item :=
  match l with
  | [] => [value]                                            (* for-else: append(value) *)
  | cp :: rest =>
    let cp0 := lo cp in let cp1 := hi cp in
    if e <? cp0 then value :: cp :: rest                     (* insert(k, value); break *)
    else if s >? cp1 then cp :: add_loop rest value s e      (* continue *)
    else if e >? cp1 then
      match rest with
      | [] => [Range (Z.min cp0 s) e]                        (* k == last_index *)
      | nx :: _ =>
        let hb := lo nx in
        if e <=? hb then Range (Z.min cp0 s) e :: rest
        else Range (Z.min cp0 s) hb :: add_loop rest value hb e  (* start_cp = higher_bound; continue *)
      end
    else if s <? cp0 then Range s cp1 :: rest
    else cp :: rest
  end.

Definition add (v : item) (l : list item) : list item := add_loop l v (lo v) (hi v).

(* ---- discard: loop "for k in reversed(range(len))" — runs on the reversed list ---- *)
Definition piece (a b : Z) : item := if b - a >? 1 then Range a b else Single a.

Fixpoint discard_rev (rl : list item) (s e : Z) : list item :=
  match rl with
  | [] => []
  | cp :: rest =>
    let cp0 := lo cp in let cp1 := hi cp in
    if s >=? cp1 then rl                                     (* break *)
    else if e >=? cp1 then
      if s <=? cp0 then discard_rev rest s e                 (* del codepoints[k] *)
      else piece cp0 s :: discard_rev rest s e
    else if e >? cp0 then
      if s <=? cp0 then
        (if cp1 - e >? 1 then Range e cp1 else Single (cp1 - 1)) :: discard_rev rest s e
      else
        (if cp1 - e >? 1 then Range e cp1 else Single (cp1 - 1))   (* insert(k + 1, ...) *)
          :: piece cp0 s :: discard_rev rest s e
    else cp :: discard_rev rest s e
  end.

Definition discard (v : item) (l : list item) : list item :=
  rev (discard_rev (rev l) (lo v) (hi v)).

(* ---- complement(): generator over the stored list ---- *)
Fixpoint complement_loop (last : Z) (l : list item) : option (list item) :=
  match l with
  | [] => Some (if last <? maxunicode then [Range last (maxunicode + 1)]
                else if last =? maxunicode then [Single maxunicode] else [])
  | cp :: rest =>
    let cp0 := lo cp in let cp1 := hi cp in
    let diff := cp0 - last in
    match complement_loop cp1 rest with
    | None => None
    | Some r =>
      if diff >? 2 then Some (Range last cp0 :: r)
      else if diff =? 2 then Some (Single last :: Single (last + 1) :: r)
      else if diff =? 1 then Some (Single last :: r)
      else if diff =? 0 then Some r
      else None                                             (* ValueError: unordered *)
    end
  end.
Definition complement (l : list item) : option (list item) := complement_loop 0 l.

(* ---- operators with a UnicodeSubset operand: for cp in reversed(other._codepoints) ---- *)
Definition ior (s o : list item) : list item := fold_left (fun acc v => add v acc) (rev o) s.
Definition isub (s o : list item) : list item := fold_left (fun acc v => discard v acc) (rev o) s.

(* iteration over the code points of a subset (ints) *)
Fixpoint zrange (a : Z) (n : nat) : list Z :=
  match n with O => [] | S n' => a :: zrange (a + 1) n' end.
Definition points (l : list item) : list Z :=
  flat_map (fun i => zrange (lo i) (Z.to_nat (hi i - lo i))) l.

(* __iand__: for value in (self - other): self.discard(value)   (value ranges over ints) *)
Definition iand (s o : list item) : list item :=
  fold_left (fun acc x => discard (Single x) acc) (points (isub s o)) s.

(* __ixor__: for value in other: if value in self: discard else add *)
Definition ixor (s o : list item) : list item :=
  fold_left (fun acc x => if den acc x then discard (Single x) acc else add (Single x) acc)
            (points o) s.

(* ---- one operation of the public mutating API ---- *)
Inductive op := OAdd (v : item) | ODiscard (v : item) | OIor (o : list item) | OIsub (o : list item)
              | OIand (o : list item) | OIxor (o : list item).
Definition apply_op (s : list item) (o : op) : list item :=
  match o with
  | OAdd v => add v s | ODiscard v => discard v s
  | OIor t => ior s t | OIsub t => isub s t | OIand t => iand s t | OIxor t => ixor s t
  end.

(* ---- iter_code_points(codepoints, reverse) : sorted() then merge ---- *)
Fixpoint insert_by (key : item -> Z) (x : item) (l : list item) : list item :=
  match l with
  | [] => [x]
  | y :: r => if key x <? key y then x :: y :: r else y :: insert_by key x r
  end.
(* stable insertion sort: equal keys keep input order *)
Definition sort_by (key : item -> Z) (l : list item) : list item :=
  fold_left (fun acc x => insert_by key x acc) l [].

Definition emit (s e : Z) : item := if e >? s + 1 then Range s e else Single s.

Fixpoint icp_fwd (l : list item) (s e : Z) : list item :=
  match l with
  | [] => if e =? 0 then [] else [emit s e]
  | cp :: rest =>
    let cp0 := lo cp in let cp1 := hi cp in
    if e =? 0 then icp_fwd rest cp0 cp1
    else if e >=? cp0 then icp_fwd rest s (if e <? cp1 then cp1 else e)
    else emit s e :: icp_fwd rest cp0 cp1
  end.
Fixpoint icp_rev (l : list item) (s e : Z) : list item :=
  match l with
  | [] => if e =? 0 then [] else [emit s e]
  | cp :: rest =>
    let cp0 := lo cp in let cp1 := hi cp in
    if e =? 0 then icp_rev rest cp0 cp1
    else if s <=? cp1 then icp_rev rest (if s >? cp0 then cp0 else s) e
    else emit s e :: icp_rev rest cp0 cp1
  end.
(* sorted(key=..., reverse=True) is stable too: equal keys keep the input order *)
Fixpoint insert_desc (key : item -> Z) (x : item) (l : list item) : list item :=
  match l with
  | [] => [x]
  | y :: r => if key x >? key y then x :: y :: r else y :: insert_desc key x r
  end.
Definition sort_desc_by (key : item -> Z) (l : list item) : list item :=
  fold_left (fun acc x => insert_desc key x acc) l [].
Definition iter_code_points (l : list item) (reverse : bool) : list item :=
  if reverse then icp_rev (sort_desc_by (fun i => hi i - 1) l) 0 0
  else icp_fwd (sort_by lo l) 0 0.

Definition update (s o : list item) : list item :=
  fold_left (fun acc v => add v acc) (iter_code_points o true) s.
Definition difference_update (s o : list item) : list item :=
  fold_left (fun acc v => discard v acc) (iter_code_points o true) s.

(* ---- specification side: canonical form ---- *)
(* sorted, non-overlapping, non-empty items *)
Fixpoint WF (l : list item) : Prop :=
  match l with
  | [] => True
  | i :: r => lo i < hi i /\ (match r with [] => True | j :: _ => hi i <= lo j end) /\ WF r
  end.
Fixpoint wfb (l : list item) : bool :=
  match l with
  | [] => true
  | i :: r => (lo i <? hi i) && (match r with [] => true | j :: _ => hi i <=? lo j end) && wfb r
  end.
(* canonical: additionally no two touching items and one-point sets written as Single *)
Definition canon_item (i : item) : bool :=
  match i with Single _ => true | Range a b => a + 1 <? b end.
Fixpoint canonb (l : list item) : bool :=
  match l with
  | [] => true
  | i :: r => canon_item i && (match r with [] => true | j :: _ => hi i <? lo j end) && canonb r
  end.
(* the canonical list of a denotation: merge touching items *)
Fixpoint norm_loop (l : list item) (s e : Z) : list item :=
  match l with
  | [] => [piece s e]
  | cp :: rest => if lo cp <=? e then norm_loop rest s (Z.max e (hi cp))
                  else piece s e :: norm_loop rest (lo cp) (hi cp)
  end.
Definition norm (l : list item) : list item :=
  match l with [] => [] | cp :: rest => norm_loop rest (lo cp) (hi cp) end.

(* ---- specification of the operations: sets of code points as predicates ---- *)
Definition nonempty (v : item) : Prop := lo v < hi v.
Definition valid_op (o : op) : Prop :=
  match o with
  | OAdd v | ODiscard v => nonempty v
  | OIor t | OIsub t | OIand t | OIxor t => WF t
  end.
Definition apply_set_op (f : Z -> bool) (o : op) : Z -> bool :=
  match o with
  | OAdd v => fun x => f x || in_item v x
  | ODiscard v => fun x => f x && negb (in_item v x)
  | OIor t => fun x => f x || den t x
  | OIsub t => fun x => f x && negb (den t x)
  | OIand t => fun x => f x && den t x
  | OIxor t => fun x => xorb (f x) (den t x)
  end.
(* canonical form as a proposition (canonb reflects it) *)
Fixpoint canonP (l : list item) : Prop :=
  match l with
  | [] => True
  | i :: r => (match i with Single _ => True | Range a b => a + 1 < b end)
              /\ (match r with [] => True | j :: _ => hi i < lo j end) /\ canonP r
  end.
