(* C13 property theorems. Nothing but statements closed by `exact <lemma>` and Print Assumptions. *)
From Coq Require Import ZArith List Bool.
From EP Require Import C13.Model C13.Proofs.
From EP Require Gen.C13Shape.
Import ListNotations.
Open Scope Z_scope.

(* every reachable state denotes the set obtained by the mathematical set operations *)
Theorem C13_ops_den : forall ops s, WF s -> Forall valid_op ops ->
  forall x, den (fold_left apply_op ops s) x = fold_left apply_set_op ops (den s) x.
Proof. intros ops s H1 H2. exact (proj2 (ops_spec ops s H1 H2)). Qed.
Print Assumptions C13_ops_den.

(* every reachable state is sorted, non-overlapping, with non-empty items *)
Theorem C13_wf_reachable : forall ops s, WF s -> Forall valid_op ops -> WF (fold_left apply_op ops s).
Proof. intros ops s H1 H2. exact (proj1 (ops_spec ops s H1 H2)). Qed.
Print Assumptions C13_wf_reachable.

Theorem C13_complement : forall l z, chain 0 l z -> z <= maxunicode + 1 ->
  exists r, complement l = Some r /\ WF r /\
            forall x, 0 <= x <= maxunicode -> den r x = negb (den l x).
Proof.
  intros l z Hc Hz. destruct (complement_total l 0 z Hc) as (r & Hr). exists r. split; [exact Hr|].
  destruct (complement_loop_spec l 0 z r Hc (Z.le_refl 0) Hz Hr) as (H1 & H2).
  split; [exact (chain_WF _ _ _ H1)|exact H2].
Qed.
Print Assumptions C13_complement.

(* canonical lists are extensional: equal denotation => equal list *)
Theorem C13_extensional : forall s t, canonP s -> canonP t -> (forall x, den s x = den t x) -> s = t.
Proof. exact canon_ext. Qed.
Print Assumptions C13_extensional.

(* FULL STATEMENT (property text: "keep a canonical sorted, non-overlapping, merged representation"):
     forall ops s, canonP s -> Forall valid_op ops -> canonP (fold_left apply_op ops s).
   It is false of the faithful model (and of the pinned code): add() leaves touching ranges
   un-merged.  Witnesses replayed on the implementation by the check (known finding C13-add-not-merged). *)
Theorem C13_canonical_refuted :
  exists ops s, canonb s = true /\ Forall valid_op ops /\ canonb (fold_left apply_op ops s) = false.
Proof.
  exists [OAdd (Range 3 10)], [Range 0 5; Range 7 9; Range 20 30].
  split; [vm_compute; reflexivity|]. split; [|vm_compute; reflexivity].
  constructor; [unfold valid_op, nonempty; cbn; reflexivity|constructor].
Qed.
Print Assumptions C13_canonical_refuted.
(* the same set reached two ways has two representations *)
Theorem C13_extensional_equality_refuted :
  exists s t, (forall x, den s x = den t x) /\ s <> t /\
              s = add (Single 5) [] /\ t = add (Range 5 6) [].
Proof.
  exists [Single 5], [Range 5 6]. split; [|split; [discriminate|split; reflexivity]].
  intros x. cbn. unfold in_item. cbn. reflexivity.
Qed.
Print Assumptions C13_extensional_equality_refuted.

(* non-vacuity: the hypotheses are met by a non-trivial state and operation list *)
Example C13_hyps_nonvacuous :
  WF [Range 0 5; Single 7; Range 20 30] /\
  Forall valid_op [OAdd (Range 3 10); ODiscard (Single 4); OIxor [Range 2 8]; OIand [Range 0 25]].
Proof.
  split; [apply wfb_WF; vm_compute; reflexivity|].
  repeat constructor; try (apply wfb_WF; vm_compute; reflexivity).
Qed.

(* ---- tables: regenerated from /repo and unicodedata on every run (Gen/C13Tables.v) ---- *)
From EP Require Import C13.Tables Gen.C13Tables.

(* installed category data = unicodedata.category on every one of the 0x110000 code points *)
Theorem C13_categories_eq_unicodedata :
  Forall2 (fun t r => forall x, den t x = den r x) minor_tables minor_reference.
Proof. exact categories_eq_unicodedata. Qed.
Print Assumptions C13_categories_eq_unicodedata.

Theorem C13_major_is_union :
  Forall (fun p => forall x, den (fst p) x = existsb (fun l => den l x) (snd p)) major_tables.
Proof. exact major_is_union. Qed.
Print Assumptions C13_major_is_union.

Theorem C13_categories_partition :
  ForallOrdPairs (fun a b => forall x, den a x && den b x = false) minor_tables /\
  forall x, 0 <= x < 1114112 -> existsb (fun l => den l x) minor_tables = true.
Proof. exact categories_partition. Qed.
Print Assumptions C13_categories_partition.

Theorem C13_blocks_disjoint :
  ForallOrdPairs (fun a b => forall x, den a x && den b x = false) block_tables.
Proof. exact blocks_disjoint. Qed.
Print Assumptions C13_blocks_disjoint.

Example C13_tables_nonvacuous : length minor_tables = 30%nat /\ length minor_reference = 30%nat /\
  length major_tables = 7%nat /\ (length block_tables > 300)%nat.
Proof. vm_compute. repeat split; repeat constructor. Qed.

(* the statements of /repo that the hand model mirrors are present in the source as read on this run (T-data,
   harness/shape.py -> Gen/C13Shape.v) *)
Theorem C13_source_shape : Gen.C13Shape.shape_ok = true.
Proof. reflexivity. Qed.
Print Assumptions C13_source_shape.
