(* C13 table theorems over the REGENERATED tables (Gen/C13Tables.v, rewritten from /repo and from the
   running interpreter's unicodedata on every run); each is a finite statement closed by vm_compute
   through the verified checkers. *)
From Coq Require Import ZArith List Bool Lia ZifyBool.
From EP Require Import C13.Model C13.Proofs C13.Checkers Gen.C13Tables.
Import ListNotations.
Open Scope Z_scope.

Lemma minor_tables_ok : forall2b eq_den minor_tables minor_reference = true.
Proof. vm_compute. reflexivity. Qed.
Lemma major_tables_ok : forallb (fun p => is_union (fst p) (snd p)) major_tables = true.
Proof. vm_compute. reflexivity. Qed.
Lemma block_tables_ok : pairwise_disjointb block_tables = true.
Proof. vm_compute. reflexivity. Qed.
Lemma minor_tables_disjoint_ok : pairwise_disjointb minor_tables = true.
Proof. vm_compute. reflexivity. Qed.
Lemma minor_tables_cover_ok : eq_den (union_all minor_tables) [Range 0 1114112] = true.
Proof. vm_compute. reflexivity. Qed.
Lemma minor_tables_wf_ok : forallb wfb minor_tables = true.
Proof. vm_compute. reflexivity. Qed.

Lemma categories_eq_unicodedata :
  Forall2 (fun t r => forall x, den t x = den r x) minor_tables minor_reference.
Proof. exact (forall2b_sound _ _ _ _ eq_den_sound _ _ minor_tables_ok). Qed.
Lemma major_is_union :
  Forall (fun p => forall x, den (fst p) x = existsb (fun l => den l x) (snd p)) major_tables.
Proof.
  apply Forall_forall. intros p Hp. apply is_union_sound.
  pose proof major_tables_ok as H. rewrite forallb_forall in H. auto.
Qed.
Lemma blocks_disjoint :
  ForallOrdPairs (fun a b => forall x, den a x && den b x = false) block_tables.
Proof. exact (pairwise_disjointb_sound _ block_tables_ok). Qed.
Lemma categories_partition :
  ForallOrdPairs (fun a b => forall x, den a x && den b x = false) minor_tables /\
  forall x, 0 <= x < 1114112 -> existsb (fun l => den l x) minor_tables = true.
Proof.
  split; [exact (pairwise_disjointb_sound _ minor_tables_disjoint_ok)|].
  intros x Hx.
  assert (Hf : Forall WF minor_tables).
  { apply Forall_forall. intros l Hl. apply wfb_WF. pose proof minor_tables_wf_ok as Hw.
    rewrite forallb_forall in Hw. auto. }
  rewrite <- (union_all_den _ Hf x). rewrite (eq_den_sound _ _ minor_tables_cover_ok x).
  apply den_full. exact Hx.
Qed.
