From Coq Require Import Arith List Bool Lia.
From EP Require Import Common.Pratt C03.Model.
Import ListNotations.

Lemma runp_flag_inv : forall p flag, snd (runp p flag) = flag \/ snd (runp p flag) = true.
Proof.
  induction p as [ok|p IHp q IHq|inner IH]; intros flag; cbn [runp].
  - left. reflexivity.
  - destruct (runp p flag) as (ok1, f1) eqn:E. specialize (IHp flag). rewrite E in IHp. cbn [snd] in IHp.
    destruct ok1.
    + destruct (IHq f1) as [H|H]; [rewrite H; exact IHp|right; exact H].
    + cbn [snd]. exact IHp.
  - destruct (runp inner false). right. reflexivity.
Qed.
Lemma runp_keeps_true : forall p, snd (runp p true) = true.
Proof. intros p. destruct (runp_flag_inv p true); assumption. Qed.

Section Parse.
Variable op : Type.
Variable lbp rbpL : op -> nat.
Variable nudR : op -> option nat.
Variable conflict : op -> option op -> bool.
Notation job := (job op).
Notation parse := (parse op lbp rbpL nudR conflict).
Notation body := (body op lbp rbpL nudR conflict).
Notation parse_all := (parse_all op lbp rbpL nudR conflict).

Definition good (s : pstate) : Prop := cursor s = cursor fresh.

Lemma body_pa : forall st j, pa st = true -> pa (snd (body st j)) = true.
Proof.
  intros st j Hpa. unfold body. cbn [next_end pa]. destruct (next_end st); [cbn; exact Hpa|].
  pose proof (runp_keeps_true (flags j)) as Hf. rewrite Hpa.
  destruct (runp (flags j) true) as (ok, flag') eqn:E. cbn [snd] in Hf. subst flag'.
  destruct (expr op lbp rbpL nudR conflict (2 * length (toks j) + 2) 0 (toks j)) as [[t [|x r]]| |];
    try destruct (ok && true); cbn; auto.
Qed.

Lemma parse_resets : forall st j, pa st = true -> good (snd (parse st j)).
Proof.
  intros st j Hpa. unfold parse. pose proof (body_pa st j Hpa) as H.
  destruct (body st j) as (o, s). cbn [snd] in *. unfold good, cursor, reset, fresh. cbn. rewrite H. reflexivity.
Qed.

Lemma good_pa : forall s, good s -> pa s = true.
Proof. intros s H. unfold good, cursor, fresh in H. cbn in H. injection H. auto. Qed.

Lemma parse_all_good : forall js st, good st -> good (parse_all st js).
Proof.
  induction js as [|j js IH]; intros st H; cbn; auto.
  apply IH. apply parse_resets. apply good_pa. exact H.
Qed.

(* the outcome of a parse only depends on the cursor fields of the state *)
Lemma body_cursor : forall s1 s2 j, cursor s1 = cursor s2 -> fst (body s1 j) = fst (body s2 j).
Proof.
  intros s1 s2 j H. unfold cursor in H. injection H as H1 H2 H3 H4 H5. unfold body. cbn [next_end pa].
  rewrite H1, H5. destruct (next_end s2); [reflexivity|].
  destruct (runp (flags j) (pa s2)) as (ok, flag').
  destruct (expr op lbp rbpL nudR conflict (2 * length (toks j) + 2) 0 (toks j)) as [[t [|x r]]| |];
    try destruct (ok && pa s2); reflexivity.
Qed.

Lemma history_independent : forall js j,
  fst (parse (parse_all fresh js) j) = fst (parse fresh j).
Proof.
  intros js j. pose proof (parse_all_good js fresh eq_refl) as H. unfold parse.
  pose proof (body_cursor (parse_all fresh js) fresh j H) as E.
  destruct (body (parse_all fresh js) j), (body fresh j). cbn in *. exact E.
Qed.

Lemma parse_never_out_of_fuel : forall st j, fst (parse st j) <> ModelOutOfFuel.
Proof.
  intros st j. unfold parse, body. cbn [next_end pa]. destruct (next_end st); [cbn; discriminate|].
  destruct (runp (flags j) (pa st)) as (ok, flag').
  pose proof (expr_total op lbp rbpL nudR conflict (toks j)) as Ht.
  destruct (expr op lbp rbpL nudR conflict (2 * length (toks j) + 2) 0 (toks j)) as [[t [|x r]]| |];
    try destruct (ok && pa st); cbn; try discriminate; congruence.
Qed.
End Parse.

(* the pre-fix discipline loses the flag: a failing '=>' operand leaves parse_arguments = False *)
Lemma nofinally_loses_flag : exists p, snd (runp_nofinally p true) = false.
Proof. exists (Arrow (Step false)). reflexivity. Qed.

(* ---- comments ---- *)
Lemma skip_balanced : forall w, balanced w -> forall level rest,
  skip_comment level (w ++ rest) = skip_comment level rest.
Proof.
  induction 1 as [|w Hw IH|w1 w2 H1 IH1 H2 IH2]; intros level rest; cbn [app skip_comment]; auto.
  rewrite <- app_assoc. rewrite IH1. cbn [app skip_comment]. apply IH2.
Qed.
(* a comment body w (balanced) followed by its ':)' is skipped exactly, at any nesting depth *)
Lemma skip_comment_exact : forall w rest, balanced w -> skip_comment 0 (w ++ CClose :: rest) = Some rest.
Proof. intros w rest H. rewrite (skip_balanced w H). reflexivity. Qed.
(* an unterminated comment is an error whatever the level *)
Lemma skip_unterminated : forall w level, balanced w -> skip_comment level w = None.
Proof. intros w level H. rewrite <- (app_nil_r w). rewrite (skip_balanced w H). reflexivity. Qed.
(* skipping always terminates having consumed at least one token *)
Lemma skip_consumes : forall ts level r, skip_comment level ts = Some r -> length r < length ts.
Proof.
  induction ts as [|[| |] ts IH]; intros level r H; cbn in *; try discriminate.
  - apply IH in H. lia.
  - destruct level; [injection H as <-; lia|apply IH in H; lia].
  - apply IH in H. lia.
Qed.
