(* C03 property theorems *)
From Coq Require Import Arith List Bool.
From EP Require Import Common.Pratt C03.Model C03.Proofs Gen.C03Shape.
Import ListNotations.

(* the source has the structure the model mirrors: the finally clause of Parser.parse covers the first advance()
   and expression(), resets the four cursor attributes, and every "parse_arguments = False" is restored in a finally *)
Theorem C03_source_shape : shape_ok = true.
Proof. reflexivity. Qed.
Print Assumptions C03_source_shape.

(* after ANY parse (success, syntax error at any point, whatever state the exception left behind) the cursor is
   the fresh one *)
Theorem C03_parse_resets : forall op lbp rbpL nudR conflict st (j : job op), pa st = true ->
  cursor (snd (parse op lbp rbpL nudR conflict st j)) = cursor fresh.
Proof. exact parse_resets. Qed.
Print Assumptions C03_parse_resets.

(* after any history of parses on one instance a source parses exactly as on a fresh instance *)
Theorem C03_history_independent : forall op lbp rbpL nudR conflict (js : list (job op)) (j : job op),
  fst (parse op lbp rbpL nudR conflict (parse_all op lbp rbpL nudR conflict fresh js) j)
  = fst (parse op lbp rbpL nudR conflict fresh j).
Proof. exact history_independent. Qed.
Print Assumptions C03_history_independent.

(* the parser core never hangs: no fuel exhaustion, for every token sequence and every table *)
Theorem C03_parse_total : forall op lbp rbpL nudR conflict st (j : job op),
  fst (parse op lbp rbpL nudR conflict st j) <> ModelOutOfFuel.
Proof. exact parse_never_out_of_fuel. Qed.
Print Assumptions C03_parse_total.
Theorem C03_expression_total : forall op lbp rbpL nudR conflict (ts : list (tok op)),
  expr op lbp rbpL nudR conflict (2 * length ts + 2) 0 ts <> OutOfFuel.
Proof. exact expr_total. Qed.
Print Assumptions C03_expression_total.

(* parse_arguments is true again after any program of steps, whatever fails inside a '=>' operand ... *)
Theorem C03_flag_restored : forall p, snd (runp p true) = true.
Proof. exact runp_keeps_true. Qed.
Print Assumptions C03_flag_restored.
(* ... which was false of the code before the fix (fixed: parse('1 => fn:') then parse('count((1,2))')) *)
Theorem C03_flag_without_finally_refuted : exists p, snd (runp_nofinally p true) = false.
Proof. exact nofinally_loses_flag. Qed.
Print Assumptions C03_flag_without_finally_refuted.

(* nested comments: a balanced body followed by ':)' is skipped exactly, at any depth; an unterminated comment is
   an error; skipping consumes tokens (no hang) *)
Theorem C03_comment_loop : forall w rest level, balanced w ->
  skip_comment 0 (w ++ CClose :: rest) = Some rest /\ skip_comment level w = None /\
  (forall ts r, skip_comment level ts = Some r -> length r < length ts).
Proof.
  intros w rest level H. split; [exact (skip_comment_exact w rest H)|].
  split; [exact (skip_unterminated w level H)|]. intros ts r. exact (skip_consumes ts level r).
Qed.
Print Assumptions C03_comment_loop.

Example C03_nonvacuous :
  balanced [COther; COpen; COther; COpen; COpen; CClose; CClose; CClose; COther] /\
  skip_comment 0 [COther; COpen; COpen; COpen; CClose; CClose; CClose; CClose; COther] = Some [COther] /\
  pa fresh = true.
Proof.
  split; [|split; reflexivity].
  apply bal_other. apply (bal_nest [COther; COpen; COpen; CClose; CClose] [COther]).
  - apply bal_other. apply (bal_nest [COpen; CClose] []); [|constructor].
    apply (bal_nest [] []); constructor.
  - repeat constructor.
Qed.
