(* C03 model: the per-instance parse cursor of Parser.parse (tdop.py 478-502: try ... finally reset), the
   parse_arguments flag of the XPath 3.1 '=>' led (xpath31/_xpath31_operators.py 235-258, try/finally after the
   fix), the nested comment loop of XPath2Parser.advance (xpath2_parser.py 220-243) and the Pratt core
   (Common/Pratt.v).  NO proofs here. *)
From Coq Require Import Arith List Bool.
From EP Require Import Common.Pratt.
Import ListNotations.

(* ---- what a later parse() on the same instance can observe of the instance ---- *)
Record pstate := mkst {
  next_end : bool;      (* self.next_token.symbol == '(end)' : the first advance() raises on it *)
  ntokens : nat;        (* items left in the self.tokens iterator *)
  has_match : bool;     (* self.next_match is not None *)
  token_is_start : bool;(* self.token is self._start_token *)
  pa : bool;            (* self.parse_arguments (read by every function token's nud) *)
  src : nat             (* self.source (an id; not reset by design, overwritten by the next parse) *)
}.
Definition fresh : pstate := mkst false 0 false true true 0.
(* the finally clause: tokens = iter(()), next_match = None, token = next_token = _start_token *)
Definition reset (s : pstate) : pstate := mkst false 0 false true (pa s) (src s).
(* the fields a later parse depends on *)
Definition cursor (s : pstate) : bool * nat * bool * bool * bool :=
  (next_end s, ntokens s, has_match s, token_is_start s, pa s).

(* ---- the flag discipline: programs whose only writer of parse_arguments is the '=>' led ---- *)
Inductive prog :=
| Step (ok : bool)          (* any nud/led/advance step: reads the flag, may raise, never writes it *)
| Seq (p q : prog)
| Arrow (inner : prog).     (* parse_arguments = False; try: inner finally: parse_arguments = True *)
(* success flag and value of parse_arguments afterwards *)
Fixpoint runp (p : prog) (flag : bool) : bool * bool :=
  match p with
  | Step ok => (ok, flag)
  | Seq p q => let '(ok1, f1) := runp p flag in if ok1 then runp q f1 else (false, f1)
  | Arrow inner => let '(ok, _) := runp inner false in (ok, true)
  end.
(* the code before the fix: the restore is skipped when inner raises *)
Fixpoint runp_nofinally (p : prog) (flag : bool) : bool * bool :=
  match p with
  | Step ok => (ok, flag)
  | Seq p q => let '(ok1, f1) := runp_nofinally p flag in if ok1 then runp_nofinally q f1 else (false, f1)
  | Arrow inner => let '(ok, f) := runp_nofinally inner false in if ok then (ok, true) else (false, f)
  end.

(* ---- Parser.parse: body inside try, then the finally clause ---- *)
Inductive outcome (T : Type) := Parsed (t : T) | SyntaxError | ModelOutOfFuel.
Arguments Parsed {T} t. Arguments SyntaxError {T}. Arguments ModelOutOfFuel {T}.

Section Parse.
Variable op : Type.
Variable lbp rbpL : op -> nat.
Variable nudR : op -> option nat.
Variable conflict : op -> option op -> bool.

(* a job: the token list of the source, its id, the flag program its tokens execute, and the state the
   instance is in when an exception leaves the body (anything: it is universally quantified) *)
Record job := mkjob { toks : list (tok op); sid : nat; flags : prog; crash : pstate }.

Definition body (st : pstate) (j : job) : outcome (tree op) * pstate :=
  (* self.tokens = iter(finditer(source)); self.source = source *)
  let st1 := mkst (next_end st) (length (toks j)) (has_match st) (token_is_start st) (pa st) (sid j) in
  (* self.advance(): "if self.next_token.symbol == '(end)': raise" *)
  if next_end st1 then (SyntaxError, st1)
  else
    let '(ok, flag') := runp (flags j) (pa st1) in
    match expr op lbp rbpL nudR conflict (2 * length (toks j) + 2) 0 (toks j) with
    | Ok (t, []) => if ok && pa st1
                    then (Parsed t, mkst true 0 true false flag' (sid j))   (* next_token is '(end)' *)
                    else (SyntaxError, mkst (next_end (crash j)) (ntokens (crash j)) (has_match (crash j)) (token_is_start (crash j)) flag' (sid j))
    | Ok (_, _ :: _) | Reject =>
        (SyntaxError, mkst (next_end (crash j)) (ntokens (crash j)) (has_match (crash j)) (token_is_start (crash j)) flag' (sid j))
    | OutOfFuel => (ModelOutOfFuel, st1)
    end.
Definition parse (st : pstate) (j : job) : outcome (tree op) * pstate :=
  let '(o, s) := body st j in (o, reset s).
Definition parse_all (st : pstate) (js : list job) : pstate := fold_left (fun s j => snd (parse s j)) js st.
End Parse.
Arguments toks {op} j. Arguments sid {op} j. Arguments flags {op} j. Arguments crash {op} j.

(* ---- XPath2Parser.advance: skipping a nested comment.  Tokens: '(:' | ':)' | anything else ---- *)
Inductive ctok := COpen | CClose | COther.
(* while comment_level: advance_until('(:', ':)'); level += 1 or -= 1 — returns the tokens after the comment, or
   None when the source ends first (advance() raises XPST0003) *)
Fixpoint skip_comment (level : nat) (ts : list ctok) : option (list ctok) :=
  match ts with
  | [] => None
  | COther :: r => skip_comment level r
  | COpen :: r => skip_comment (S level) r
  | CClose :: r => match level with 0 => Some r | S l => skip_comment l r end
  end.
(* specification: comments are the Dyck words *)
Inductive balanced : list ctok -> Prop :=
| bal_nil : balanced []
| bal_other : forall w, balanced w -> balanced (COther :: w)
| bal_nest : forall w1 w2, balanced w1 -> balanced w2 -> balanced (COpen :: w1 ++ CClose :: w2).
