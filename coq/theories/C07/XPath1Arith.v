(* C07 - XPath 1.0 arithmetic (REC-xpath-19991116 section 3.5): both operands are converted with number() - a boolean to 0 / 1, a
   string by the Number production (NaN when it is not a number), a node-set by the string-value of its first node, the empty
   node-set to NaN - and the operation follows IEEE 754 on the extended values (finite values are exact rationals here; there is
   no negative zero in this model: the harness keeps it out of the operands).  The implementation (XPath1Parser) is tied by
   correspondence, with libxml2 as a second reading.  NO proofs here. *)
From Coq Require Import ZArith List Bool.
From EP Require Import C15.Keys C07.Model C07.XPath1.
Import ListNotations.
Open Scope Z_scope.

Definition nneg (v : nval) : nval :=
  match v with NFin n d => NFin (- n) d | NPInf => NNInf | NNInf => NPInf | NNaN => NNaN end.
Definition nadd (a b : nval) : nval :=
  match a, b with
  | NNaN, _ | _, NNaN => NNaN
  | NPInf, NNInf | NNInf, NPInf => NNaN
  | NPInf, _ | _, NPInf => NPInf
  | NNInf, _ | _, NNInf => NNInf
  | NFin n1 d1, NFin n2 d2 => NFin (n1 * Zpos d2 + n2 * Zpos d1) (d1 * d2)
  end.
Definition nsub (a b : nval) : nval := nadd a (nneg b).
(* the sign of a value: 1, 0, -1 *)
Definition nsgn (v : nval) : Z := match v with NFin n _ => Z.sgn n | NPInf => 1 | NNInf => -1 | NNaN => 0 end.
Definition inf_of_sign (s : Z) : nval := if s =? 0 then NNaN else if 0 <? s then NPInf else NNInf.
Definition nmul (a b : nval) : nval :=
  match a, b with
  | NNaN, _ | _, NNaN => NNaN
  | NFin n1 d1, NFin n2 d2 => NFin (n1 * n2) (d1 * d2)
  | _, _ => inf_of_sign (nsgn a * nsgn b)          (* an infinity times zero is NaN *)
  end.
Definition ndiv (a b : nval) : nval :=
  match a, b with
  | NNaN, _ | _, NNaN => NNaN
  | NFin n1 d1, NFin n2 d2 =>
      if n2 =? 0 then inf_of_sign (Z.sgn n1)        (* 0 div 0 is NaN, x div 0 an infinity with the sign of x *)
      else NFin (Z.sgn n2 * n1 * Zpos d2) (Z.to_pos (Z.abs n2) * d1)
  | NFin _ _, _ => NFin 0 1                        (* a finite value divided by an infinity *)
  | _, NFin n2 _ => inf_of_sign (nsgn a * (if n2 =? 0 then 1 else Z.sgn n2))
  | _, _ => NNaN                                    (* an infinity divided by an infinity *)
  end.
Inductive aop := APlus | AMinus | ATimes | ADiv.
Definition nop (o : aop) : nval -> nval -> nval := match o with APlus => nadd | AMinus => nsub | ATimes => nmul | ADiv => ndiv end.
Definition arith1 (o : aop) (a b : obj) : nval := nop o (to_num a) (to_num b).
Definition neg1 (a : obj) : nval := nneg (to_num a).

(* same value: the rationals are compared by cross multiplication *)
Definition nsame (a b : nval) : bool :=
  match a, b with
  | NFin n1 d1, NFin n2 d2 => n1 * Zpos d2 =? n2 * Zpos d1
  | NNaN, NNaN | NPInf, NPInf | NNInf, NNInf => true
  | _, _ => false
  end.
Definition all_aops : list aop := [APlus; AMinus; ATimes; ADiv].
(* the result as [kind; numerator; denominator]: kind 0 finite, 1 NaN, 2 INF, 3 -INF *)
Definition nflat (v : nval) : list Z := match v with NFin n d => [0; n; Zpos d] | NNaN => [1; 0; 1] | NPInf => [2; 0; 1] | NNInf => [3; 0; 1] end.
Definition run_arith1 (o : Z) (a b : obj) : list Z := nflat (arith1 (nth (Z.to_nat o) all_aops APlus) a b).
Definition run_neg1 (a : obj) : list Z := nflat (neg1 a).
