(* C07 property theorems: XPath 1.0 comparisons *)
From Coq Require Import ZArith List Bool Lia.
From EP Require Import C15.Keys C15.KeysProofs C07.Model C07.XPath1.
Import ListNotations.
Open Scope Z_scope.

Lemma num_eq1_sym : forall a b, num_eq1 a b = num_eq1 b a.
Proof. intros [n d| | |] [n' d'| | |]; cbn; auto. apply Z.eqb_sym. Qed.
Lemma cmp_num_flip : forall o a b, cmp_num o a b = cmp_num (flip o) b a.
Proof. intros o a b. destruct o; cbn; rewrite ?(num_eq1_sym a b); reflexivity. Qed.
Lemma cmp_str_flip : forall o a b, cmp_str o a b = cmp_str (flip o) b a.
Proof.
  intros o a b. destruct o; cbn; try (rewrite Z.eqb_sym; reflexivity); rewrite ?(num_eq1_sym (asnum a) (asnum b)); reflexivity.
Qed.
Lemma cmp_bool_flip : forall o a b, cmp_bool o a b = cmp_bool (flip o) b a.
Proof. intros o a b. destruct o, a, b; reflexivity. Qed.
Lemma existsb_ext : forall (A : Type) (f g : A -> bool) l, (forall x, f x = g x) -> existsb f l = existsb g l.
Proof. intros A f g l H. induction l as [|x r IH]; cbn; [reflexivity|rewrite H, IH; reflexivity]. Qed.
Lemma existsb_swap : forall (A B : Type) (f : A -> B -> bool) l1 l2,
  existsb (fun s => existsb (fun t => f s t) l2) l1 = existsb (fun t => existsb (fun s => f s t) l1) l2.
Proof.
  intros A B f l1 l2. induction l1 as [|x r IH]; cbn.
  - induction l2; cbn; auto.
  - rewrite IH. clear IH. induction l2 as [|y r2 IH2]; cbn; [reflexivity|].
    rewrite <- IH2. destruct (f x y), (existsb (fun t => f x t) r2), (existsb (fun s => f s y) r); reflexivity.
Qed.

Lemma scalar_flip : forall o a b, compare_scalar o a b = compare_scalar (flip o) b a.
Proof.
  intros o a b. destruct o; cbn [compare_scalar is_eqop flip].
  - destruct a, b; first [apply (cmp_bool_flip Eq)|apply (cmp_num_flip Eq)|apply (cmp_str_flip Eq)|reflexivity].
  - destruct a, b; first [apply (cmp_bool_flip Ne)|apply (cmp_num_flip Ne)|apply (cmp_str_flip Ne)|reflexivity].
  - apply (cmp_num_flip Lt).
  - apply (cmp_num_flip Le).
  - apply (cmp_num_flip Gt).
  - apply (cmp_num_flip Ge).
Qed.
(* a op b = b op' a where op' is the mirrored operator: = and != are symmetric, < mirrors > *)
Theorem C07_xpath1_mirror : forall o a b, compare1 o a b = compare1 (flip o) b a.
Proof.
  intros o a b. destruct a as [x|x|x|l], b as [y|y|y|m]; cbn [compare1].
  1-3, 5-7, 9-11: apply scalar_flip.
  - apply cmp_bool_flip.
  - apply existsb_ext. intros s. apply cmp_num_flip.
  - apply existsb_ext. intros s. apply cmp_str_flip.
  - apply cmp_bool_flip.
  - apply existsb_ext. intros s. apply cmp_num_flip.
  - apply existsb_ext. intros s. apply cmp_str_flip.
  - rewrite existsb_swap. apply existsb_ext. intros t. apply existsb_ext. intros s. apply cmp_str_flip.
Qed.
Print Assumptions C07_xpath1_mirror.

(* a node-set compares like some node of it: existential semantics against numbers and strings *)
Theorem C07_xpath1_nodeset_exists : forall o l v t,
  compare1 o (ONodes l) (ONum v) = existsb (fun s => compare1 o (ONum (asnum s)) (ONum v)) l /\
  compare1 Eq (ONodes l) (OStr t) = existsb (fun s => compare1 Eq (OStr s) (OStr t)) l /\
  compare1 o (ONodes l) (OBool true) = cmp_bool o (match l with [] => false | _ => true end) true.
Proof.
  intros o l v t. split; [|split].
  - cbn. apply existsb_ext. intros s. unfold compare_scalar. destruct o; reflexivity.
  - cbn. reflexivity.
  - reflexivity.
Qed.
Print Assumptions C07_xpath1_nodeset_exists.
(* on scalars != is the negation of =; on node-sets both can hold at once *)
Theorem C07_xpath1_ne : (forall a b, (forall l, a <> ONodes l) -> (forall l, b <> ONodes l) ->
                           compare1 Ne a b = negb (compare1 Eq a b)) /\
  (exists a b, compare1 Ne a b = true /\ compare1 Eq a b = true).
Proof.
  split.
  - intros a b Ha Hb. destruct a as [x|x|x|l], b as [y|y|y|m]; try (exfalso; eapply Ha; reflexivity);
      try (exfalso; eapply Hb; reflexivity); reflexivity.
  - exists (ONodes [mkstr 1 (NFin 1 1) true; mkstr 2 (NFin 2 1) true]), (ONum (NFin 1 1)). split; reflexivity.
Qed.
Print Assumptions C07_xpath1_ne.
Example C07_xpath1_nonvacuous :
  compare1 Eq (ONodes []) (OBool false) = true /\ compare1 Lt (OBool true) (ONum (NFin 2 1)) = true /\
  compare1 Eq (ONodes [mkstr 5 NNaN true; mkstr 1 (NFin 1 1) true]) (ONum (NFin 1 1)) = true /\
  compare1 Lt (ONum (NFin 0 1)) (OStr (mkstr 5 NNaN true)) = false /\ compare1 Eq (OStr (mkstr 1 (NFin 1 1) true)) (ONum (NFin 1 1)) = true.
Proof. repeat split; reflexivity. Qed.
