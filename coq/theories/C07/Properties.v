(* C07 property theorems *)
From Coq Require Import ZArith List Bool.
From EP Require Import C07.Model C09.Model C09.Proofs.
Import ListNotations.

(* A op B is true exactly when some pair (a, b) satisfies the value comparison *)
Theorem C07_general_exists : forall (A : Type) (cmp : A -> A -> bool) l r,
  general A cmp l r = true <-> exists a b, In a l /\ In b r /\ cmp a b = true.
Proof.
  intros A cmp l r. unfold general. rewrite existsb_exists. split.
  - intros ((a, b) & Hin & Hc). apply in_prod_iff in Hin. exists a, b. tauto.
  - intros (a & b & Ha & Hb & Hc). exists (a, b). split; [apply in_prod_iff; tauto|exact Hc].
Qed.
Print Assumptions C07_general_exists.

(* effective boolean value of every sequence = the F&O table *)
Theorem C07_ebv : forall l, ebv l = ebv_spec l.
Proof. intros [|[| b | n | z |] [|j r]]; reflexivity. Qed.
Print Assumptions C07_ebv.

(* and / or / not over effective boolean values obey Boolean algebra (on the non-error values) *)
Theorem C07_boolean_algebra : forall a b c : bool,
  negb (a && b) = negb a || negb b /\ negb (a || b) = negb a && negb b /\ (a && (b || c)) = (a && b) || (a && c) /\
  negb (negb a) = a /\ (if a then b else c) = (a && b) || (negb a && c).
Proof. intros [|] [|] [|]; repeat split. Qed.
Print Assumptions C07_boolean_algebra.

(* value comparison on strings is the code-point total order (C09's compare) *)
Theorem C07_string_order : forall a b c,
  compare_cp a a = 0%Z /\ compare_cp b a = (- compare_cp a b)%Z /\ (compare_cp a b = 0%Z <-> a = b) /\
  (compare_cp a b = (-1)%Z -> compare_cp b c = (-1)%Z -> compare_cp a c = (-1)%Z).
Proof.
  intros a b c. repeat split; try apply compare_cp_refl; try apply compare_cp_antisym; try apply compare_cp_eq; try apply compare_cp_trans.
Qed.
Print Assumptions C07_string_order.

(* FULL STATEMENT: forall o a b, vc_accepts o a b = vc_spec o a b  (XPTY0004 exactly for the incomparable type pairs).
   It is false of the chain of isinstance tests: the exact list of deviating cells is computed by the kernel, and the check
   reproduces each cell on the implementation (known finding C07-value-comparison-type-table). *)
Theorem C07_type_table_disagreements :
  vc_disagreements =
  [(Eq, TStr, TQName); (Eq, TUntyped, TQName); (Eq, TQName, TStr); (Eq, TQName, TUntyped);
   (Ne, TStr, TQName); (Ne, TUntyped, TQName); (Ne, TQName, TStr); (Ne, TQName, TUntyped);
   (Lt, TStr, TQName); (Lt, TUntyped, TQName); (Lt, TQName, TStr); (Lt, TQName, TUntyped); (Lt, TQName, TQName);
   (Lt, TGYear, TGYear); (Lt, THex, THex); (Lt, TB64, TB64);
   (Le, TStr, TQName); (Le, TUntyped, TQName); (Le, TQName, TStr); (Le, TQName, TUntyped); (Le, TQName, TQName);
   (Le, TGYear, TGYear); (Le, THex, THex); (Le, TB64, TB64);
   (Gt, TStr, TQName); (Gt, TUntyped, TQName); (Gt, TQName, TStr); (Gt, TQName, TUntyped); (Gt, TQName, TQName);
   (Gt, TGYear, TGYear); (Gt, THex, THex); (Gt, TB64, TB64);
   (Ge, TStr, TQName); (Ge, TUntyped, TQName); (Ge, TQName, TStr); (Ge, TQName, TUntyped); (Ge, TQName, TQName);
   (Ge, TGYear, TGYear); (Ge, THex, THex); (Ge, TB64, TB64)].
Proof. vm_compute. reflexivity. Qed.
Print Assumptions C07_type_table_disagreements.
(* everywhere else the chain is the F&O table *)
Theorem C07_type_table_partial : forall o a b, ~ In (o, a, b) vc_disagreements -> vc_accepts o a b = vc_spec o a b.
Proof.
  intros o a b H. destruct (Bool.eqb (vc_accepts o a b) (vc_spec o a b)) eqn:E; [apply Bool.eqb_prop; exact E|].
  exfalso. apply H. unfold vc_disagreements. apply filter_In. split.
  - apply in_flat_map. exists o. split; [destruct o; cbn; tauto|]. apply in_flat_map. exists a. split; [destruct a; cbn; tauto|].
    apply in_map_iff. exists b. split; [reflexivity|destruct b; cbn; tauto].
  - cbn [fst snd]. rewrite E. reflexivity.
Qed.
Print Assumptions C07_type_table_partial.

Example C07_nonvacuous : ebv [IStr 0] = EBV false /\ ebv [INode; IOther] = EBV true /\ ebv [INum false; INum false] = FORG0006 /\
  vc_accepts Lt TInt TDbl = true /\ vc_accepts Eq TBool TInt = false /\ general Z Z.ltb [5; 1]%Z [0; 3]%Z = true.
Proof. vm_compute. repeat split; reflexivity. Qed.
