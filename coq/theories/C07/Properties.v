(* C07 property theorems *)
From Coq Require Import ZArith List Bool.
From EP Require Gen.C07Shape.
From EP Require Import C07.Model C09.Model C09.Proofs.
Import ListNotations.

(* A op B is true exactly when some pair (a, b) satisfies the value comparison *)
Theorem C07_general_exists : forall (A : Type) (cmp : A -> A -> bool) l r,
  general A cmp l r = true <-> exists a b, In a l /\ In b r /\ cmp a b = true.
Proof.
  intros A cmp l r. unfold general. rewrite existsb_exists. split.
  - intros ((a, b) & Hin & Hc). apply in_prod_iff in Hin. exists a, b. tauto.
  - intros (a & b & Ha & Hb & Hc). exists (a, b). split; [apply in_prod_iff; tauto|exact Hc].
Qed.
Print Assumptions C07_general_exists.

(* effective boolean value of every sequence = the F&O table *)
Theorem C07_ebv : forall l, ebv l = ebv_spec l.
Proof. intros [|[| b | n | z |] [|j r]]; reflexivity. Qed.
Print Assumptions C07_ebv.

(* and / or / not over effective boolean values obey Boolean algebra (on the non-error values) *)
Theorem C07_boolean_algebra : forall a b c : bool,
  negb (a && b) = negb a || negb b /\ negb (a || b) = negb a && negb b /\ (a && (b || c)) = (a && b) || (a && c) /\
  negb (negb a) = a /\ (if a then b else c) = (a && b) || (negb a && c).
Proof. intros [|] [|] [|]; repeat split. Qed.
Print Assumptions C07_boolean_algebra.

(* value comparison on strings is the code-point total order (C09's compare) *)
Theorem C07_string_order : forall a b c,
  compare_cp a a = 0%Z /\ compare_cp b a = (- compare_cp a b)%Z /\ (compare_cp a b = 0%Z <-> a = b) /\
  (compare_cp a b = (-1)%Z -> compare_cp b c = (-1)%Z -> compare_cp a c = (-1)%Z).
Proof.
  intros a b c. repeat split; try apply compare_cp_refl; try apply compare_cp_antisym; try apply compare_cp_eq; try apply compare_cp_trans.
Qed.
Print Assumptions C07_string_order.

(* XPTY0004 exactly for the incomparable type pairs: for every operator and pair of types the code (the chain of
   isinstance tests followed by the Python operator) yields a value iff F&O defines the comparison, for the 2.0 / 3.0
   operator mapping and for the 3.1 one (ordered binaries) *)
Theorem C07_type_table : forall v31 o a b, vc_defined v31 o a b = vc_spec v31 o a b.
Proof. intros v31 o a b. destruct v31, o, a, b; reflexivity. Qed.
Print Assumptions C07_type_table.
(* before the repairs: strings and untypedAtomic were compared with QNames and xs:gYear values were ordered *)
Theorem C07_type_table_old_disagreements :
  vc_old_disagreements =
  [(Eq, TStr, TQName); (Eq, TUntyped, TQName); (Eq, TQName, TStr); (Eq, TQName, TUntyped);
   (Ne, TStr, TQName); (Ne, TUntyped, TQName); (Ne, TQName, TStr); (Ne, TQName, TUntyped);
   (Lt, TGYear, TGYear); (Le, TGYear, TGYear); (Gt, TGYear, TGYear); (Ge, TGYear, TGYear)].
Proof. vm_compute. reflexivity. Qed.
Print Assumptions C07_type_table_old_disagreements.

(* the same for general comparisons: XPTY0004 exactly when the value comparison that applies after the untypedAtomic
   conversion rules is undefined *)
Theorem C07_general_type_table : forall v31 o a b, gc_defined v31 o a b = gc_spec v31 o a b.
Proof. intros v31 o a b. destruct v31, o, a, b; reflexivity. Qed.
Print Assumptions C07_general_type_table.

(* and with the XPath 1.0 compatibility mode switched on *)
Theorem C07_general_type_table_compat : forall v31 o a b, gc_compat_defined v31 o a b = gc_compat_spec v31 o a b.
Proof. intros v31 o a b. destruct v31, o, a, b; reflexivity. Qed.
Print Assumptions C07_general_type_table_compat.

Example C07_nonvacuous : ebv [IStr 0] = EBV false /\ ebv [INode; IOther] = EBV true /\ ebv [INum false; INum false] = FORG0006 /\
  vc_defined true Lt TInt TDbl = true /\ vc_defined false Eq TBool TInt = false /\ vc_defined true Lt THex THex = true /\
  vc_defined false Lt THex THex = false /\ general Z Z.ltb [5; 1]%Z [0; 3]%Z = true.
Proof. vm_compute. repeat split; reflexivity. Qed.

(* the statements of /repo that the decision tables of C07/Model.v mirror are present in the source as read on this run
   (T-data, harness/shape.py -> Gen/C07Shape.v) *)
Theorem C07_source_shape : Gen.C07Shape.shape_ok = true.
Proof. reflexivity. Qed.
Print Assumptions C07_source_shape.
