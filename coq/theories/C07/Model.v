(* C07 model: comparisons, effective boolean value and logic.
   - value comparison type check of evaluate__value_comparison_operators (xpath2/_xpath2_operators.py 516-563): the chain
     of isinstance / issubclass tests as a decision table over type tags, against the F&O operator mapping;
   - general comparison = any(op(x1, x2) for (x1, x2) in product(...)) (xpath1/_xpath1_operators.py 84-102);
   - boolean_value (xpath_tokens/base.py 804-845) against the F&O effective-boolean-value table.  NO proofs here. *)
From Coq Require Import ZArith List Bool.
Import ListNotations.

(* atomic type tags (Python classes of the values) *)
Inductive ty := TInt | TDec | TDbl | TFlt | TStr | TUntyped | TAnyURI | TBool | TQName
              | TDate | TDateTime | TTime | TGYear | TDuration | TYMDur | TDTDur | THex | TB64.
Inductive vop := Eq | Ne | Lt | Le | Gt | Ge.
Definition is_eqop (o : vop) : bool := match o with Eq | Ne => true | _ => false end.

Definition ty_eqb (a b : ty) : bool :=
  match a, b with
  | TInt, TInt | TDec, TDec | TDbl, TDbl | TFlt, TFlt | TStr, TStr | TUntyped, TUntyped | TAnyURI, TAnyURI | TBool, TBool
  | TQName, TQName | TDate, TDate | TDateTime, TDateTime | TTime, TTime | TGYear, TGYear | TDuration, TDuration
  | TYMDur, TYMDur | TDTDur, TDTDur | THex, THex | TB64, TB64 => true
  | _, _ => false end.
(* Python class facts used by the chain *)
Definition is_float (t : ty) : bool := match t with TDbl | TFlt => true | _ => false end.       (* Float subclasses float *)
Definition is_duration (t : ty) : bool := match t with TDuration | TYMDur | TDTDur => true | _ => false end.
Definition subclass (a b : ty) : bool :=                 (* issubclass(a, b), a <> b *)
  match a, b with TFlt, TDbl | TYMDur, TDuration | TDTDur, TDuration => true | _, _ => false end.
Definition in_ (l : list ty) (t : ty) : bool := existsb (ty_eqb t) l.

(* the decision of the chain: true = the comparison is attempted, false = XPTY0004 *)
Definition is_g (t : ty) : bool := match t with TGYear => true | _ => false end.   (* x.name.startswith('g') *)
Definition vc_accepts (o : vop) (a b : ty) : bool :=
  if negb (is_eqop o) && (is_g a || is_g b) then false                         (* no order relation on xs:gYear ... *)
  else if ty_eqb a b && negb (ty_eqb a TDuration) then true                   (* cls0 is cls1 and cls0 is not Duration *)
  else if is_float a && is_float b then true
  else if ty_eqb a TBool || ty_eqb b TBool then false
  else if in_ [TInt; TDec] a && in_ [TInt; TDec] b then true
  else if in_ [TStr; TUntyped; TAnyURI] a && in_ [TStr; TUntyped; TAnyURI] b then true
  else if in_ [TDbl; TFlt; TDec; TInt] a && in_ [TDbl; TFlt; TDec; TInt] b then true
  else if is_duration a && is_duration b && is_eqop o then true
  else if (subclass a b || subclass b a) && negb (is_duration a) then true
  else false.
(* the chain before the repairs: strings / untypedAtomic accepted against QName, no test of the g* types *)
Definition vc_accepts_old (o : vop) (a b : ty) : bool :=
  if ty_eqb a b && negb (ty_eqb a TDuration) then true
  else if is_float a && is_float b then true
  else if ty_eqb a TBool || ty_eqb b TBool then false
  else if in_ [TInt; TDec] a && in_ [TInt; TDec] b then true
  else if in_ [TStr; TUntyped; TAnyURI] a && in_ [TStr; TUntyped; TAnyURI] b then true
  else if in_ [TStr; TUntyped; TQName] a && in_ [TStr; TUntyped; TQName] b then true
  else if in_ [TDbl; TFlt; TDec; TInt] a && in_ [TDbl; TFlt; TDec; TInt] b then true
  else if is_duration a && is_duration b && is_eqop o then true
  else if (subclass a b || subclass b a) && negb (is_duration a) then true
  else false.
(* after the chain getattr(operator, symbol) is applied to the two operands; a TypeError becomes XPTY0004 (modelled external:
   QName defines no order, AbstractBinary orders only when created by a 3.1+ parser (ordered flag), a string-like value
   against a QName compares unequal / raises for order) *)
Definition is_bin (t : ty) : bool := match t with THex | TB64 => true | _ => false end.
Definition py_op_defined (v31 : bool) (o : vop) (a b : ty) : bool :=
  if is_eqop o then true
  else if ty_eqb a TQName || ty_eqb b TQName then false
  else if is_bin a && is_bin b then v31
  else true.
(* the observable decision: a value (true) or XPTY0004 (false) *)
Definition vc_defined (v31 : bool) (o : vop) (a b : ty) : bool := vc_accepts o a b && py_op_defined v31 o a b.
Definition vc_defined_old (v31 : bool) (o : vop) (a b : ty) : bool := vc_accepts_old o a b && py_op_defined v31 o a b.

(* F&O operator mapping: which value comparisons are defined (v31: XPath 3.1, which adds op:hexBinary-less-than /
   -greater-than and the base64Binary ones) *)
Definition numeric (t : ty) : bool := in_ [TInt; TDec; TDbl; TFlt] t.
Definition stringlike (t : ty) : bool := in_ [TStr; TUntyped; TAnyURI] t.    (* untypedAtomic is compared as a string *)
Definition vc_spec (v31 : bool) (o : vop) (a b : ty) : bool :=
  if numeric a && numeric b then true
  else if stringlike a && stringlike b then true
  else if ty_eqb a TBool && ty_eqb b TBool then true
  else if ty_eqb a b && in_ [TDate; TDateTime; TTime] a then true
  else if ty_eqb a b && in_ [TGYear; TQName] a then is_eqop o      (* equality only *)
  else if ty_eqb a b && is_bin a then is_eqop o || v31
  else if is_duration a && is_duration b then
         is_eqop o || (ty_eqb a TYMDur && ty_eqb b TYMDur) || (ty_eqb a TDTDur && ty_eqb b TDTDur)
  else false.
Definition all_ty : list ty := [TInt; TDec; TDbl; TFlt; TStr; TUntyped; TAnyURI; TBool; TQName; TDate; TDateTime; TTime; TGYear;
                                TDuration; TYMDur; TDTDur; THex; TB64].
Definition all_ops : list vop := [Eq; Ne; Lt; Le; Gt; Ge].
(* the cells on which the old chain and the F&O table disagreed (3.1) *)
Definition vc_old_disagreements : list (vop * ty * ty) :=
  filter (fun c => negb (Bool.eqb (vc_defined_old true (fst (fst c)) (snd (fst c)) (snd c)) (vc_spec true (fst (fst c)) (snd (fst c)) (snd c))))
         (flat_map (fun o => flat_map (fun a => map (fun b => (o, a, b)) all_ty) all_ty) all_ops).

(* ---- general comparisons (= != < <= > >=) on typed operands: iter_comparison_data (xpath_tokens/base.py) ----
   both untypedAtomic: compared as strings; one untypedAtomic: it is cast to the type of the other operand by the Python
   operators of UntypedAtomic (xs:double for a numeric operand) - the pair is comparable iff the other operand is
   comparable with a value of its own type; neither untypedAtomic: the helper comparable_types decides *)
Definition gc_comparable (ord : bool) (a b : ty) : bool :=
  if ty_eqb a TBool || ty_eqb b TBool then ty_eqb a TBool && ty_eqb b TBool
  else if numeric a then numeric b
  else if in_ [TStr; TAnyURI] a then in_ [TStr; TAnyURI] b
  else if ty_eqb a TQName then ty_eqb b TQName && negb ord
  else if in_ [TDate; TDateTime; TTime; TGYear] a then ty_eqb a b && negb (ord && is_g a)
  else if is_duration a then is_duration b && (negb ord || (ty_eqb a b && negb (ty_eqb a TDuration)))
  else if is_bin a then ty_eqb a b
  else ty_eqb a b.
Definition gc_accepts (o : vop) (a b : ty) : bool :=
  let ord := negb (is_eqop o) in
  match ty_eqb a TUntyped, ty_eqb b TUntyped with
  | true, true => true
  | true, false => gc_comparable ord b b
  | false, true => gc_comparable ord a a
  | false, false => gc_comparable ord a b
  end.
Definition gc_defined (v31 : bool) (o : vop) (a b : ty) : bool :=
  gc_accepts o a b &&
  (if ty_eqb a TUntyped then (if ty_eqb b TUntyped then true else py_op_defined v31 o b b)
   else if ty_eqb b TUntyped then py_op_defined v31 o a a else py_op_defined v31 o a b).
(* XPath 2.0 3.5.2: an untypedAtomic operand is cast to xs:double against a numeric operand, to xs:string against an
   untypedAtomic or a string, otherwise to the type of the other operand; then the value comparison applies *)
Definition gc_cast (a b : ty) : ty :=
  if ty_eqb a TUntyped then (if numeric b then TDbl else if ty_eqb b TUntyped || stringlike b then TStr else b) else a.
Definition gc_spec (v31 : bool) (o : vop) (a b : ty) : bool := vc_spec v31 o (gc_cast a b) (gc_cast b a).

(* general comparisons of XPath 2.0+ with the XPath 1.0 compatibility mode (XPath 2.0 3.5.2), on single atomic operands:
   a boolean operand converts the other with fn:boolean; < <= > >= convert both with fn:number; for = and != a numeric
   operand converts both with fn:number (4a), a string operand casts both to xs:string (4b); otherwise the rules of the
   normal mode apply.  The code follows the same order (iter_comparison_data, compatibility branch). *)
Definition gc_compat_defined (v31 : bool) (o : vop) (a b : ty) : bool :=
  if ty_eqb a TBool || ty_eqb b TBool then true
  else if negb (is_eqop o) then true
  else if numeric a || numeric b then true
  else if ty_eqb a TStr || ty_eqb b TStr then true
  else gc_defined v31 o a b.
Definition gc_compat_spec (v31 : bool) (o : vop) (a b : ty) : bool :=
  if ty_eqb a TBool || ty_eqb b TBool then true
  else if negb (is_eqop o) then true
  else if numeric a || numeric b then true
  else if ty_eqb a TStr || ty_eqb b TStr then true
  else gc_spec v31 o a b.

(* ---- general comparison ---- *)
Section General.
Variable A : Type.
Variable cmp : A -> A -> bool.
Definition general (l r : list A) : bool := existsb (fun p => cmp (fst p) (snd p)) (list_prod l r).
End General.

(* ---- effective boolean value ---- *)
Inductive item := INode | IBool (b : bool) | IStr (len : nat) | INum (zero_or_nan : bool) | IOther.
(* IStr covers xs:string, xs:untypedAtomic, xs:anyURI; INum covers integer / decimal / double / float *)
Inductive ebv_res := EBV (b : bool) | FORG0006.
Definition ebv_one (i : item) : ebv_res :=
  match i with
  | INode => EBV true | IBool b => EBV b | IStr n => EBV (negb (Nat.eqb n 0)) | INum z => EBV (negb z) | IOther => FORG0006 end.
(* boolean_value(list): not obj -> False; first is a node -> True; len > 1 -> FORG0006; else the single item *)
Definition ebv (l : list item) : ebv_res :=
  match l with
  | [] => EBV false
  | INode :: _ => EBV true
  | _ :: _ :: _ => FORG0006
  | [i] => ebv_one i
  end.
(* F&O 7.3.1 fn:boolean *)
Definition ebv_spec (l : list item) : ebv_res :=
  match l with
  | [] => EBV false
  | INode :: _ => EBV true
  | [IBool b] => EBV b
  | [IStr n] => EBV (negb (Nat.eqb n 0))
  | [INum z] => EBV (negb z)
  | _ => FORG0006
  end.
