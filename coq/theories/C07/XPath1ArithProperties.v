(* C07 property theorems on XPath 1.0 arithmetic (statements with short proofs). *)
From Coq Require Import ZArith List Bool Lia.
From EP Require Import C15.Keys C07.Model C07.XPath1 C07.XPath1Arith.
Import ListNotations.
Open Scope Z_scope.

(* an empty node-set operand makes every arithmetic result NaN (number() of an empty node-set), on either side and for unary minus *)
Theorem C07_xpath1_arithmetic_empty_nodeset_is_nan : forall o b,
  arith1 o (ONodes []) b = NNaN /\ arith1 o b (ONodes []) = NNaN /\ neg1 (ONodes []) = NNaN.
Proof.
  intros o b. unfold arith1, neg1. cbn [to_num]. split; [|split; [|reflexivity]].
  - destruct o; reflexivity.
  - destruct o; cbn [nop]; unfold nsub; destruct (to_num b); reflexivity.
Qed.
Print Assumptions C07_xpath1_arithmetic_empty_nodeset_is_nan.

(* NaN is absorbing; + and * are commutative (same value); a - b = a + (-b) *)
Theorem C07_xpath1_arithmetic_laws : forall a b,
  (forall o, nop o NNaN b = NNaN /\ nop o a NNaN = NNaN) /\
  nsame (nadd a b) (nadd b a) = true /\ nsame (nmul a b) (nmul b a) = true /\ nsub a b = nadd a (nneg b).
Proof.
  intros a b. split; [intros o; split; destruct o; cbn [nop]; unfold nsub; try reflexivity; destruct a; reflexivity|].
  split; [|split; [|reflexivity]].
  - destruct a as [n1 d1| | |], b as [n2 d2| | |]; cbn; try reflexivity. apply Z.eqb_eq. rewrite !Pos2Z.inj_mul. ring.
  - assert (R : forall v, nsame v v = true) by (intros [n d| | |]; cbn; try reflexivity; apply Z.eqb_refl).
    destruct a as [n1 d1| | |], b as [n2 d2| | |]; cbn [nmul nsgn]; try reflexivity;
      try (rewrite (Z.mul_comm (Z.sgn _) _); apply R); try (rewrite (Z.mul_comm _ (Z.sgn _)); apply R).
    cbn [nsame]. apply Z.eqb_eq. rewrite !Pos2Z.inj_mul. ring.
Qed.
Print Assumptions C07_xpath1_arithmetic_laws.

(* division by zero never fails: 0 div 0 is NaN, a positive / negative value gives INF / -INF; the quotient of finite values
   multiplied by the divisor is the dividend *)
Theorem C07_xpath1_division : forall n d,
  ndiv (NFin 0 d) (NFin 0 1) = NNaN /\
  (0 < n -> ndiv (NFin n d) (NFin 0 1) = NPInf) /\ (n < 0 -> ndiv (NFin n d) (NFin 0 1) = NNInf) /\
  (forall n2 d2, n2 <> 0 -> nsame (nmul (ndiv (NFin n d) (NFin n2 d2)) (NFin n2 d2)) (NFin n d) = true).
Proof.
  intros n d. split; [reflexivity|]. split; [|split].
  - intros H. cbn. unfold inf_of_sign. rewrite (Z.sgn_pos n H). reflexivity.
  - intros H. cbn. unfold inf_of_sign. rewrite (Z.sgn_neg n H). reflexivity.
  - intros n2 d2 H. cbn. destruct (n2 =? 0) eqn:E; [apply Z.eqb_eq in E; contradiction|]. cbn. apply Z.eqb_eq.
    rewrite !Pos2Z.inj_mul, Z2Pos.id by lia.
    destruct (Z.sgn_spec n2) as [[H1 S]|[[H1 S]|[H1 S]]]; rewrite S;
      [rewrite Z.abs_eq by lia; ring|exfalso; lia|rewrite Z.abs_neq by lia; ring].
Qed.
Print Assumptions C07_xpath1_division.

Example C07_xpath1_arith_nonvacuous :
  arith1 APlus (ONum (NFin 1 1)) (ONodes []) = NNaN /\
  nsame (arith1 ADiv (OBool true) (OStr (mkstr 0 (NFin 2 1) true))) (NFin 1 2) = true /\
  arith1 ATimes (ONum NPInf) (ONum (NFin 0 1)) = NNaN /\ arith1 ADiv (ONum (NFin (-1) 1)) (ONum (NFin 0 1)) = NNInf.
Proof. repeat split; reflexivity. Qed.
