From Coq Require Import ZArith List Bool.
From EP Require Import C07.Model.
Import ListNotations.
Open Scope Z_scope.
Definition b2z (b : bool) : Z := if b then 1 else 0.
Definition ty_of (z : Z) : ty := nth (Z.to_nat z) all_ty TInt.
Definition op_of (z : Z) : vop := nth (Z.to_nat z) all_ops Eq.
(* (the code yields a value, F&O defines the comparison); v = 1 for the 3.1 parser *)
Definition run_vc (v o a b : Z) : list Z :=
  [b2z (vc_defined (v =? 1) (op_of o) (ty_of a) (ty_of b)); b2z (vc_spec (v =? 1) (op_of o) (ty_of a) (ty_of b))].
Definition run_gcc (v o a b : Z) : list Z :=
  [b2z (gc_compat_defined (v =? 1) (op_of o) (ty_of a) (ty_of b)); b2z (gc_compat_spec (v =? 1) (op_of o) (ty_of a) (ty_of b))].
Definition run_gc (v o a b : Z) : list Z :=
  [b2z (gc_defined (v =? 1) (op_of o) (ty_of a) (ty_of b)); b2z (gc_spec (v =? 1) (op_of o) (ty_of a) (ty_of b))].
(* general comparison on integer sequences: op 0 = | 1 != | 2 < | 3 <= | 4 > | 5 >= *)
Definition zcmp (o : Z) (x y : Z) : bool :=
  match o with 0 => x =? y | 1 => negb (x =? y) | 2 => x <? y | 3 => x <=? y | 4 => x >? y | _ => x >=? y end.
Definition run_general (o : Z) (l r : list Z) : list Z := [b2z (general Z (zcmp o) l r)].
(* EBV: items 0 node | 1 true | 2 false | 3 empty string-like | 4 non-empty string-like | 5 zero or NaN | 6 non-zero number | 7 other *)
Definition item_of (z : Z) : item :=
  match z with 0 => INode | 1 => IBool true | 2 => IBool false | 3 => IStr 0 | 4 => IStr 1 | 5 => INum true | 6 => INum false | _ => IOther end.
Definition run_ebv (l : list Z) : list Z := match ebv (map item_of l) with EBV b => [b2z b] | FORG0006 => [-1] end.
(* doubles: code 99 stands for NaN (every comparison with it is false except !=) *)
Definition dcmp (o : Z) (x y : Z) : bool :=
  if (x =? 99) || (y =? 99) then (o =? 1) else zcmp o x y.
Definition run_general_nan (o : Z) (l r : list Z) : list Z := [b2z (general Z (dcmp o) l r)].
