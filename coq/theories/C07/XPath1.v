(* C07: comparisons of XPath 1.0 (REC-xpath-19991116 section 3.4) over the four object types: booleans, numbers,
   strings and node-sets (a node-set is the list of the string-values of its nodes).  A string carries its content code
   (equal codes = equal strings), the value of number() on it and whether it is empty; numbers are exact rationals or NaN /
   INF / -INF (C15.Keys.nval).  The implementation (XPath1Parser) is tied to compare1 by correspondence, with libxml2 as a
   second reading of the specification.  NO proofs here. *)
From Coq Require Import ZArith List Bool.
From EP Require Import C15.Keys C07.Model.
Import ListNotations.
Open Scope Z_scope.

Record str := mkstr { code : Z; asnum : nval; nonempty : bool }.
Inductive obj := OBool (b : bool) | ONum (v : nval) | OStr (s : str) | ONodes (l : list str).

Definition num_lt (a b : nval) : bool :=
  match a, b with
  | NNaN, _ | _, NNaN => false
  | NFin n1 d1, NFin n2 d2 => n1 * Zpos d2 <? n2 * Zpos d1
  | NNInf, (NFin _ _ | NPInf) => true
  | NFin _ _, NPInf => true
  | _, _ => false
  end.
Definition num_eq1 (a b : nval) : bool := match a, b with NNaN, _ | _, NNaN => false | _, _ => nval_eq a b end.
Definition cmp_num (o : vop) (a b : nval) : bool :=
  match o with
  | Eq => num_eq1 a b | Ne => negb (num_eq1 a b)
  | Lt => num_lt a b | Le => num_lt a b || num_eq1 a b | Gt => num_lt b a | Ge => num_lt b a || num_eq1 a b
  end.
Definition num_of_bool (b : bool) : nval := NFin (if b then 1 else 0) 1.
Definition to_bool (x : obj) : bool :=
  match x with
  | OBool b => b
  | ONum v => match v with NFin n _ => negb (n =? 0) | NNaN => false | _ => true end
  | OStr s => nonempty s
  | ONodes l => match l with [] => false | _ => true end
  end.
Definition to_num (x : obj) : nval :=
  match x with
  | OBool b => num_of_bool b | ONum v => v | OStr s => asnum s
  | ONodes l => match l with s :: _ => asnum s | [] => NNaN end
  end.
Definition cmp_str (o : vop) (a b : str) : bool :=
  match o with
  | Eq => code a =? code b | Ne => negb (code a =? code b)
  | _ => cmp_num o (asnum a) (asnum b)
  end.
Definition cmp_bool (o : vop) (a b : bool) : bool :=
  match o with Eq => eqb a b | Ne => negb (eqb a b) | _ => cmp_num o (num_of_bool a) (num_of_bool b) end.

(* neither operand is a node-set *)
Definition compare_scalar (o : vop) (a b : obj) : bool :=
  if is_eqop o then
    match a, b with
    | OBool _, _ | _, OBool _ => cmp_bool o (to_bool a) (to_bool b)
    | ONum _, _ | _, ONum _ => cmp_num o (to_num a) (to_num b)
    | OStr s, OStr t => cmp_str o s t
    | _, _ => false
    end
  else cmp_num o (to_num a) (to_num b).

Definition compare1 (o : vop) (a b : obj) : bool :=
  match a, b with
  | ONodes l1, ONodes l2 => existsb (fun s => existsb (fun t => cmp_str o s t) l2) l1
  | ONodes l, OBool c => cmp_bool o (to_bool a) c
  | OBool c, ONodes l => cmp_bool o c (to_bool b)
  | ONodes l, ONum v => existsb (fun s => cmp_num o (asnum s) v) l
  | ONum v, ONodes l => existsb (fun s => cmp_num o v (asnum s)) l
  | ONodes l, OStr t => existsb (fun s => cmp_str o s t) l
  | OStr t, ONodes l => existsb (fun s => cmp_str o t s) l
  | _, _ => compare_scalar o a b
  end.

Definition flip (o : vop) : vop := match o with Lt => Gt | Gt => Lt | Le => Ge | Ge => Le | x => x end.
Definition run_cmp1 (o : Z) (a b : obj) : Z := if compare1 (nth (Z.to_nat o) all_ops Eq) a b then 1 else 0.
