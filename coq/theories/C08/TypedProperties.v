(* C08 property theorems, typed part (C08/Typed.v) *)
From Coq Require Import ZArith List Bool Sorted.
From EP Require Import C15.Keys C08.Typed C08.TypedProofs.
Import ListNotations.
Open Scope Z_scope.

(* ---- typed atomic values (C08/Typed.v) ---- *)
(* fn:distinct-values on typed values: every result is an input value, no two results are the same value (eq after the
   untypedAtomic -> string conversion, NaN the same as NaN, values that are not comparable distinct), and every input
   value is the same as some result *)
Theorem C08_typed_distinct_values : forall l,
  (forall x, In x (distinct_values l) -> In x l) /\ pairwise_fresh (distinct_values l) /\
  (forall x, In x l -> exists k, In k (distinct_values l) /\ (k = x \/ dv_same x k = true)).
Proof. exact distinct_values_spec. Qed.
Print Assumptions C08_typed_distinct_values.
Theorem C08_typed_same_value_relation : forall a b, dv_same a a = true /\ dv_same a b = dv_same b a.
Proof. intros a b. split; [apply dv_same_refl|apply dv_same_sym]. Qed.
Print Assumptions C08_typed_same_value_relation.
(* fn:index-of on typed values: exactly the positions whose item is eq to the search value, in ascending order *)
Theorem C08_typed_index_of : forall l v,
  (forall p, In p (index_of l v) <->
             exists k, nth_error l k = Some (nth k l v) /\ p = 1 + Z.of_nat k /\ av_eq (nth k l v) v = Some true) /\
  StronglySorted Z.lt (index_of l v).
Proof. intros l v. split; [intros p; apply index_loop_spec|apply (index_loop_sorted l 1 v)]. Qed.
Print Assumptions C08_typed_index_of.
(* fn:min over finite numeric values: one of the values, not greater than any of them (max is symmetric: pick_n true) *)
Theorem C08_typed_min_finite : forall r v, nfin v = true -> forallb nfin r = true ->
  nfin (fold_left (pick_n false) r v) = true /\ In (fold_left (pick_n false) r v) (v :: r) /\
  forall x, In x (v :: r) -> nle (fold_left (pick_n false) r v) x = true.
Proof. exact fold_min_spec. Qed.
Print Assumptions C08_typed_min_finite.
(* fn:sum over finite numeric values is the exact rational sum: adding one more value in front adds it *)
Theorem C08_typed_sum_finite : forall x l, nfin x = true -> forallb nfin l = true ->
  nval_eq (nsum (x :: l)) (nval_add x (nsum l)) = true.
Proof. exact nsum_cons. Qed.
Print Assumptions C08_typed_sum_finite.
(* fn:deep-equal on sequences of atomic values: reflexive, symmetric, same length, pairwise the same value *)
Theorem C08_typed_deep_equal : forall l1 l2,
  deep_equal l1 l1 = true /\ deep_equal l1 l2 = deep_equal l2 l1 /\
  (deep_equal l1 l2 = true -> length l1 = length l2 /\
     forall k x y, nth_error l1 k = Some x -> nth_error l2 k = Some y -> dv_same x y = true).
Proof.
  intros l1 l2. split; [apply deep_equal_refl|]. split; [apply deep_equal_sym|].
  intros H. split; [apply deep_equal_length; exact H|apply deep_equal_nth; exact H].
Qed.
Print Assumptions C08_typed_deep_equal.
(* the same-value relation is transitive as well: distinct-values keeps exactly one value of every class *)
Theorem C08_typed_same_value_transitive : forall a b c, dv_same a b = true -> dv_same b c = true -> dv_same a c = true.
Proof. exact dv_same_trans. Qed.
Print Assumptions C08_typed_same_value_transitive.
(* numeric promotion in min / max / sum / avg: the result type is at least the type of every numeric item *)
Theorem C08_typed_promotion : forall l u v, In (ANum u v) l -> trank u <= trank (num_type l).
Proof. exact num_type_upper. Qed.
Print Assumptions C08_typed_promotion.
Example C08_typed_nonvacuous :
  distinct_values [ANum TInteger (NFin 1 1); ANum TDouble (NFin 2 2); ABool true; AUntyped 4 None; AStr false 4; ANum TDouble NNaN; ANum TFloat NNaN] =
    [ANum TInteger (NFin 1 1); ABool true; AUntyped 4 None; ANum TDouble NNaN] /\
  index_of [ABool true; ANum TInteger (NFin 1 1); ANum TDecimal (NFin 10 10)] (ANum TDouble (NFin 1 1)) = [2; 3] /\
  extreme true [ANum TInteger (NFin 3 1); ANum TDecimal (NFin 25 10)] = RVal (ANum TDecimal (NFin 3 1)) /\
  extreme false [ANum TInteger (NFin 1 1); ABool true] = RErr 6 /\
  sum_ [AOrd 4 12; AOrd 4 1] = RVal (AOrd 4 13) /\ avg_ [ANum TInteger (NFin 1 1); ANum TInteger (NFin 2 1)] = RVal (ANum TDecimal (NFin 3 2)).
Proof. vm_compute. repeat split; reflexivity. Qed.
