From Coq Require Import ZArith List Bool.
From EP Require Import C08.Model.
Import ListNotations.
Open Scope Z_scope.
Definition EX (c z : Z) : ext := match c with 0 => EFin z | 1 => ENaN | 2 => EPInf | _ => ENInf end.
Definition enc_res (r : res) : items := match r with Seq l => 0 :: l | Err c => [1; c] end.
Definition oz (o : option Z) : items := match o with Some z => [z] | None => [] end.
(* function codes: 1 insert-before | 2 remove | 3 index-of | 4 reverse | 5 subsequence/2 | 6 subsequence/3 | 7 zero-or-one |
   8 one-or-more | 9 exactly-one | 10 distinct-values | 11 sum | 12 min | 13 max | 14 count | 15 head | 16 tail | 17 avg | 18 empty | 19 exists *)
Definition run_fn (f : Z) (l : items) (a b c d : Z) (ins : items) : items :=
  match f with
  | 1 => insert_before l a ins | 2 => remove l a | 3 => index_of l a | 4 => rev l
  | 5 => subsequence l (EX a b) None | 6 => subsequence l (EX a b) (Some (EX c d))
  | 7 => enc_res (zero_or_one l) | 8 => enc_res (one_or_more l) | 9 => enc_res (exactly_one l)
  | 10 => distinct_values l | 11 => [sum l] | 12 => oz (zmin l) | 13 => oz (zmax l) | 14 => [Z.of_nat (length l)]
  | 15 => match l with x :: _ => [x] | [] => [] end | 16 => tl l
  | 18 => [if empty l then 1 else 0] | 19 => [if exists_ l then 1 else 0]
  | _ => match avg l with Some (n, d') => [n; d'] | None => [] end
  end.
(* expression templates over sequences S, T and an integer n *)
Definition run_tpl (t : Z) (S T : items) (n : Z) : items :=
  match t with
  | 1 => for_expr [fun _ => S; fun env => range 1 (nth 0 env 0)] (fun e => [nth 0 e 0 * 10 + nth 1 e 0])
  | 2 => for_expr [fun _ => S; fun _ => T] (fun e => [nth 0 e 0 * 100 + nth 1 e 0])
  | 3 => [if some_expr [fun _ => S; fun env => range 1 (nth 0 env 0)] (fun e => nth 1 e 0 =? n) then 1 else 0]
  | 4 => [if every_expr [fun _ => S; fun _ => T] (fun e => nth 0 e 0 <? nth 1 e 0 + n) then 1 else 0]
  | 5 => simple_map S (fun x => [x + n; x])
  | 6 => filter_pos (fun p => p =? n) 1 S                                         (* S[n] *)
  | 7 => filter (fun x => n <? x) S                                                (* S[. > n] *)
  | 8 => filter_pos (fun p => (p <? Z.of_nat (length S)) && (1 <? p)) 1 S          (* S[position() < last() and position() > 1] *)
  | 9 => for_expr [fun _ => S; fun env => filter (fun y => y <? nth 0 env 0) T; fun env => range (nth 1 env 0) (nth 0 env 0)]
                  (fun e => [nth 0 e 0 * 100 + nth 1 e 0 * 10 + nth 2 e 0])
  | 10 => [if every_expr [fun _ => S] (fun e => nth 0 e 0 <? n) then 1 else 0; if some_expr [fun _ => S] (fun e => negb (nth 0 e 0 <? n)) then 1 else 0]
  | 11 => S ++ T ++ [n]                                                            (* ($S, $T, $n) *)
  | _ => range n (n + Z.of_nat (length S))                                         (* $n to $n + count($S) *)
  end.

(* string-join on code point lists: [the join as the code computes it; the F&O value] *)
Definition run_join (l : list (list Z)) (sep : list Z) : list (list Z) := [py_join sep l; string_join l sep].
