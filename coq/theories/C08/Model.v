(* C08 model: sequence expressions and functions on item sequences (lists), mirroring the generator loops of
   xpath2/_xpath2_functions.py 540-751 (enumerate counters, the `inserted` flag, comparison chains), the aggregate
   functions (416-537), XPathContext.iter_product (xpath_context.py 346-379, modelled as the dependent Cartesian
   product it computes: each range is re-evaluated under the bindings of the earlier variables) and
   for / some / every / simple map.  Items are integers.  NO proofs here. *)
From Coq Require Import ZArith List Bool.
Import ListNotations.
Open Scope Z_scope.

Definition items := list Z.

(* ---- insert-before: enumerate + inserted flag ---- *)
Fixpoint ib_loop (l : items) (pos at_pos : Z) (ins : items) (inserted : bool) : items :=
  match l with
  | [] => if inserted then [] else ins                         (* if not inserted: yield from ins *)
  | x :: r => if negb inserted && (pos =? at_pos)
              then ins ++ x :: ib_loop r (pos + 1) at_pos ins true
              else x :: ib_loop r (pos + 1) at_pos ins inserted
  end.
Definition insert_before (l : items) (position : Z) (ins : items) : items :=
  ib_loop l 0 (Z.max 0 (position - 1)) ins false.

(* ---- remove / index-of: enumerate(start=1) ---- *)
Fixpoint remove_loop (l : items) (pos position : Z) : items :=
  match l with [] => [] | x :: r => if pos =? position then remove_loop r (pos + 1) position else x :: remove_loop r (pos + 1) position end.
Definition remove (l : items) (position : Z) : items := remove_loop l 1 position.
Fixpoint index_loop (l : items) (pos v : Z) : items :=
  match l with [] => [] | x :: r => if x =? v then pos :: index_loop r (pos + 1) v else index_loop r (pos + 1) v end.
Definition index_of (l : items) (v : Z) : items := index_loop l 1 v.

(* ---- subsequence: "starting_loc <= pos < starting_loc + length" on rounded doubles incl. INF / NaN ---- *)
Inductive ext := EFin (z : Z) | EPInf | ENInf | ENaN.
Definition ext_add (a b : ext) : ext :=
  match a, b with
  | ENaN, _ | _, ENaN => ENaN | EPInf, ENInf | ENInf, EPInf => ENaN
  | EPInf, _ | _, EPInf => EPInf | ENInf, _ | _, ENInf => ENInf | EFin x, EFin y => EFin (x + y) end.
Definition ext_le (a b : ext) : bool :=
  match a, b with ENaN, _ | _, ENaN => false | ENInf, _ | _, EPInf => true | EPInf, _ | _, ENInf => false | EFin x, EFin y => x <=? y end.
Definition ext_lt (a b : ext) : bool :=
  match a, b with ENaN, _ | _, ENaN => false | EPInf, _ | _, ENInf => false | ENInf, _ | _, EPInf => true | EFin x, EFin y => x <? y end.
Fixpoint filter_pos (f : Z -> bool) (p : Z) (l : items) : items :=
  match l with [] => [] | x :: r => if f p then x :: filter_pos f (p + 1) r else filter_pos f (p + 1) r end.
Definition subsequence (l : items) (start : ext) (len : option ext) : items :=
  match len with
  | None => filter_pos (fun p => ext_le start (EFin p)) 1 l
  | Some n => filter_pos (fun p => ext_le start (EFin p) && ext_lt (EFin p) (ext_add start n)) 1 l
  end.

(* ---- cardinality functions ---- *)
Inductive res := Seq (l : items) | Err (code : Z).       (* 3 FORG0003, 4 FORG0004, 5 FORG0005 *)
Definition zero_or_one (l : items) : res := match l with [] | [_] => Seq l | _ => Err 3 end.
Definition one_or_more (l : items) : res := match l with [] => Err 4 | _ => Seq l end.
Definition exactly_one (l : items) : res := match l with [_] => Seq l | _ => Err 5 end.

(* ---- distinct-values on exact (integer) items: "elif value not in results" ---- *)
Fixpoint dv_loop (l results : items) : items :=
  match l with
  | [] => []
  | x :: r => if existsb (Z.eqb x) results then dv_loop r results else x :: dv_loop r (results ++ [x])
  end.
Definition distinct_values (l : items) : items := dv_loop l [].

(* ---- aggregates on integers ---- *)
Definition sum (l : items) : Z := fold_left Z.add l 0.
Definition zmin (l : items) : option Z := match l with [] => None | x :: r => Some (fold_left Z.min r x) end.
Definition zmax (l : items) : option Z := match l with [] => None | x :: r => Some (fold_left Z.max r x) end.
(* avg = sum div count, an exact fraction (numerator, denominator) *)
Definition avg (l : items) : option (Z * Z) := match l with [] => None | _ => Some (sum l, Z.of_nat (length l)) end.

(* ---- iter_product: dependent Cartesian product; a range may look at the earlier loop variables ---- *)
Fixpoint product (ranges : list (items -> items)) (env : items) : list items :=
  match ranges with
  | [] => [[]]
  | r :: rest => flat_map (fun v => map (cons v) (product rest (env ++ [v]))) (r env)
  end.
Definition for_expr (ranges : list (items -> items)) (body : items -> items) : items := flat_map body (product ranges []).
Definition some_expr (ranges : list (items -> items)) (cond : items -> bool) : bool := existsb cond (product ranges []).
Definition every_expr (ranges : list (items -> items)) (cond : items -> bool) : bool := forallb cond (product ranges []).
Definition simple_map (l : items) (f : Z -> items) : items := flat_map f l.
(* 1 to n *)
Definition range (a b : Z) : items := map (fun k => a + Z.of_nat k) (seq 0 (Z.to_nat (b - a + 1))).

(* ---- fn:string-join on strings as code point lists.  Spec (F&O): the items in order, the separator between adjacent items.
   Code: separator.join(items) - Python's str.join, modelled as the left fold that appends separator and item. ---- *)
Definition str := list Z.
Fixpoint string_join (l : list str) (sep : str) : str :=
  match l with
  | [] => []
  | s :: r => match r with [] => s | _ => s ++ sep ++ string_join r sep end
  end.
Definition py_join (sep : str) (l : list str) : str :=
  match l with [] => [] | s :: r => fold_left (fun acc t => acc ++ sep ++ t) r s end.
(* fn:empty / fn:exists: a first item is fetched from the operand *)
Definition empty (l : items) : bool := match l with [] => true | _ => false end.
Definition exists_ (l : items) : bool := match l with [] => false | _ => true end.
