(* executable entry points for the correspondence of C08/Typed.v *)
From Coq Require Import ZArith List Bool.
From EP Require Import C15.Keys C08.Typed.
Import ListNotations.
Open Scope Z_scope.

Definition enc_t (t : ntype) : Z := trank t.
Definition enc_n (v : nval) : list Z :=
  match v with NFin n d => [0; n; Zpos d] | NNaN => [1; 0; 1] | NPInf => [2; 0; 1] | NNInf => [3; 0; 1] end.
Definition enc_av (a : av) : list Z :=
  match a with
  | ANum t v => 1 :: enc_t t :: enc_n v
  | AStr u s => [2; if u then 1 else 0; s]
  | AUntyped s _ => [3; s]
  | ABool b => [4; if b then 1 else 0]
  | AOrd f v => [5; f; v]
  | AEq f v => [6; f; v]
  end.
Definition enc_res (r : res) : list Z := match r with RVal a => enc_av a | REmpty => [0] | RErr c => [-1; c] end.

(* distinct-values: the kept values and, for each input item, the index (0-based) of the kept value of its class *)
Fixpoint first_same (x : av) (l : list av) (k : Z) : Z :=
  match l with [] => -1 | y :: r => if dv_same x y then k else first_same x r (k + 1) end.
Definition run_dv (l : list av) : list (list Z) * list Z :=
  let d := distinct_values l in (map enc_av d, map (fun x => first_same x d 0) l).
Definition run_index (l : list av) (v : av) : list Z := index_of l v.
(* f: 0 min | 1 max | 2 sum | 3 avg *)
Definition run_agg (f : Z) (l : list av) : list Z :=
  enc_res (match f with 0 => extreme false l | 1 => extreme true l | 2 => sum_ l | _ => avg_ l end).
Definition run_deq (l1 l2 : list av) : list Z := [if deep_equal l1 l2 then 1 else 0].
