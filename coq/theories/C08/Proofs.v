From Coq Require Import ZArith List Bool Lia ZifyBool.
From EP Require Import C08.Model.
Import ListNotations.
Open Scope Z_scope.

(* insert-before = firstn (p-1) ++ ins ++ skipn (p-1), p clamped to 1 .. *)
Lemma ib_loop_spec : forall l pos at_pos ins, pos <= at_pos ->
  ib_loop l pos at_pos ins false = firstn (Z.to_nat (at_pos - pos)) l ++ ins ++ skipn (Z.to_nat (at_pos - pos)) l.
Proof.
  induction l as [|x r IH]; intros pos at_pos ins H; cbn [ib_loop].
  - rewrite firstn_nil, skipn_nil, app_nil_r. reflexivity.
  - cbn [negb andb]. destruct (pos =? at_pos) eqn:E.
    + assert (at_pos - pos = 0) by lia. rewrite H0. cbn [Z.to_nat firstn skipn app]. f_equal. f_equal.
      clear. revert pos. induction r as [|y r IH]; intros pos; cbn; auto. f_equal. apply IH.
    + rewrite IH by lia. replace (Z.to_nat (at_pos - pos)) with (S (Z.to_nat (at_pos - (pos + 1)))) by lia. reflexivity.
Qed.
Lemma insert_before_spec : forall l position ins,
  insert_before l position ins =
  firstn (Z.to_nat (Z.max 0 (position - 1))) l ++ ins ++ skipn (Z.to_nat (Z.max 0 (position - 1))) l.
Proof.
  intros. unfold insert_before. rewrite ib_loop_spec by lia. rewrite Z.sub_0_r. reflexivity.
Qed.
Lemma insert_before_count : forall l position ins, length (insert_before l position ins) = (length l + length ins)%nat.
Proof.
  intros. rewrite insert_before_spec. rewrite !app_length.
  rewrite <- (firstn_skipn (Z.to_nat (Z.max 0 (position - 1))) l) at 3. rewrite app_length. lia.
Qed.

Lemma remove_loop_past : forall l p q, q < p -> remove_loop l p q = l.
Proof. induction l as [|z l IH]; intros p q H; cbn; auto. destruct (p =? q) eqn:E; [lia|]. f_equal. apply IH. lia. Qed.
Lemma remove_loop_spec : forall l pos position, pos <= position ->
  remove_loop l pos position = firstn (Z.to_nat (position - pos)) l ++ skipn (S (Z.to_nat (position - pos))) l.
Proof.
  induction l as [|x r IH]; intros pos position H; cbn [remove_loop].
  - rewrite firstn_nil. reflexivity.
  - destruct (pos =? position) eqn:E.
    + assert (position - pos = 0) by lia. rewrite H0. cbn [Z.to_nat firstn skipn app]. apply remove_loop_past. lia.
    + rewrite IH by lia. replace (Z.to_nat (position - pos)) with (S (Z.to_nat (position - (pos + 1)))) by lia. reflexivity.
Qed.
Lemma remove_spec : forall l position, 1 <= position ->
  remove l position = firstn (Z.to_nat (position - 1)) l ++ skipn (S (Z.to_nat (position - 1))) l.
Proof. intros. unfold remove. apply remove_loop_spec. exact H. Qed.
Lemma remove_out_of_range : forall l position, position < 1 -> remove l position = l.
Proof. intros l position H. unfold remove. apply remove_loop_past. lia. Qed.

Lemma index_loop_spec : forall l pos v p, In p (index_loop l pos v) <-> pos <= p /\ nth_error l (Z.to_nat (p - pos)) = Some v.
Proof.
  induction l as [|x r IH]; intros pos v p; cbn [index_loop].
  - split; [intros []|]. intros (_ & H). destruct (Z.to_nat (p - pos)); discriminate.
  - destruct (x =? v) eqn:E.
    + cbn [In]. rewrite IH. split.
      * intros [<-|(H1 & H2)]; [split; [lia|]; rewrite Z.sub_diag; cbn; f_equal; lia|].
        split; [lia|]. replace (Z.to_nat (p - pos)) with (S (Z.to_nat (p - (pos + 1)))) by lia. exact H2.
      * intros (H1 & H2). destruct (Z.eq_dec pos p); [left; auto|right]. split; [lia|].
        replace (Z.to_nat (p - pos)) with (S (Z.to_nat (p - (pos + 1)))) in H2 by lia. exact H2.
    + rewrite IH. split.
      * intros (H1 & H2). split; [lia|]. replace (Z.to_nat (p - pos)) with (S (Z.to_nat (p - (pos + 1)))) by lia. exact H2.
      * intros (H1 & H2). destruct (Z.eq_dec pos p).
        { subst. rewrite Z.sub_diag in H2. cbn in H2. injection H2 as H2. lia. }
        split; [lia|]. replace (Z.to_nat (p - pos)) with (S (Z.to_nat (p - (pos + 1)))) in H2 by lia. exact H2.
Qed.
Lemma index_of_spec : forall l v p, In p (index_of l v) <-> 1 <= p /\ nth_error l (Z.to_nat (p - 1)) = Some v.
Proof. intros. apply index_loop_spec. Qed.

(* distinct-values: every value once, in order of first occurrence *)
Lemma dv_loop_in : forall l results x, In x (dv_loop l results) <-> In x l /\ ~ In x results.
Proof.
  induction l as [|y r IH]; intros results x; cbn [dv_loop]; [cbn; tauto|].
  destruct (existsb (Z.eqb y) results) eqn:E.
  - rewrite IH. apply existsb_exists in E. destruct E as (z & Hz & Ez). assert (y = z) by lia. subst z.
    cbn [In]. split; [tauto|]. intros ([->|H] & Hn); tauto.
  - cbn [In]. rewrite IH, in_app_iff. cbn [In].
    assert (Hy : ~ In y results).
    { intros H. assert (existsb (Z.eqb y) results = true) by (apply existsb_exists; exists y; split; auto; lia). congruence. }
    split.
    + intros [<-|(H1 & H2)]; [tauto|]. split; [tauto|]. tauto.
    + intros ([<-|H1] & H2); [tauto|]. destruct (Z.eq_dec y x); [left; auto|right]. split; auto. tauto.
Qed.
Lemma dv_loop_nodup : forall l results, NoDup (dv_loop l results).
Proof.
  induction l as [|y r IH]; intros results; cbn [dv_loop]; [constructor|].
  destruct (existsb (Z.eqb y) results); auto. constructor; auto.
  rewrite dv_loop_in. rewrite in_app_iff. cbn. tauto.
Qed.
Lemma distinct_values_spec : forall l, NoDup (distinct_values l) /\ forall x, In x (distinct_values l) <-> In x l.
Proof. intros l. split; [apply dv_loop_nodup|]. intros x. unfold distinct_values. rewrite dv_loop_in. cbn. tauto. Qed.

(* every = not some not *)
Lemma every_not_some_not : forall ranges cond,
  every_expr ranges cond = negb (some_expr ranges (fun e => negb (cond e))).
Proof.
  intros. unfold every_expr, some_expr. induction (product ranges []) as [|x r IH]; cbn; auto.
  rewrite IH. destruct (cond x); reflexivity.
Qed.

Lemma flat_map_flat_map : forall (A B C : Type) (f : B -> list C) (g : A -> list B) l,
  flat_map f (flat_map g l) = flat_map (fun x => flat_map f (g x)) l.
Proof. induction l as [|x r IH]; cbn; auto. rewrite flat_map_app, IH. reflexivity. Qed.
Lemma flat_map_map : forall (A B C : Type) (f : B -> list C) (g : A -> B) l,
  flat_map f (map g l) = flat_map (fun x => f (g x)) l.
Proof. induction l as [|x r IH]; cbn; auto. rewrite IH. reflexivity. Qed.

(* a for with two independent ranges is the nested for *)
Lemma for_two_nested : forall A B body,
  for_expr [fun _ => A; fun _ => B] body = flat_map (fun x => flat_map (fun y => body [x; y]) B) A.
Proof.
  intros A B body. unfold for_expr. cbn [product app]. rewrite flat_map_flat_map. apply flat_map_ext. intros a.
  rewrite flat_map_map, flat_map_flat_map. apply flat_map_ext. intros b. cbn. apply app_nil_r.
Qed.
(* a dependent inner range sees the outer variable *)
Lemma for_dependent : forall A f body,
  for_expr [fun _ => A; fun env => f (nth 0 env 0)] body = flat_map (fun x => flat_map (fun y => body [x; y]) (f x)) A.
Proof.
  intros A f body. unfold for_expr. cbn [product app]. rewrite flat_map_flat_map. apply flat_map_ext. intros a.
  rewrite flat_map_map, flat_map_flat_map. cbn [nth]. apply flat_map_ext. intros b. cbn. apply app_nil_r.
Qed.

Lemma sum_app : forall l1 l2, sum (l1 ++ l2) = sum l1 + sum l2.
Proof.
  intros. unfold sum. rewrite fold_left_app.
  assert (G : forall l a, fold_left Z.add l a = a + fold_left Z.add l 0).
  { induction l as [|x r IH]; intros a; cbn; [lia|]. rewrite IH. rewrite (IH x). lia. }
  rewrite G. lia.
Qed.
Lemma fold_min_facts : forall r a, (fold_left Z.min r a <= a /\ forall x, In x r -> fold_left Z.min r a <= x) /\
  (fold_left Z.min r a = a \/ In (fold_left Z.min r a) r).
Proof.
  induction r as [|b r IH]; intros a; cbn [fold_left In].
  - split; [split; [lia|intros x []]|left; reflexivity].
  - destruct (IH (Z.min a b)) as ((H1 & H2) & H3). split; [split|].
    + lia.
    + intros x [<-|Hx]; [lia|auto].
    + destruct H3 as [H3|H3]; [|right; right; exact H3].
      destruct (Z.min_spec a b) as [(_ & E)|(_ & E)]; [left; congruence|right; left; congruence].
Qed.
Lemma zmin_spec : forall l m, zmin l = Some m -> In m l /\ forall x, In x l -> m <= x.
Proof.
  intros [|a r] m H; cbn in H; [discriminate|]. injection H as <-.
  destruct (fold_min_facts r a) as ((H1 & H2) & H3). split.
  - destruct H3 as [->|H3]; [left; reflexivity|right; exact H3].
  - intros x [<-|Hx]; auto.
Qed.

(* ---- string-join ---- *)
Lemma fold_join_prefix : forall (sep : str) r (a b : str),
  fold_left (fun acc t => acc ++ sep ++ t) r (a ++ b) = a ++ fold_left (fun acc t => acc ++ sep ++ t) r b.
Proof.
  intros sep r. induction r as [|t r IH]; intros a b; cbn [fold_left]; [reflexivity|].
  rewrite <- app_assoc. apply IH.
Qed.
Lemma py_join_is_string_join : forall sep l, py_join sep l = string_join l sep.
Proof.
  intros sep l. destruct l as [|s r]; [reflexivity|]. unfold py_join. revert s.
  induction r as [|t r IH]; intros s; [reflexivity|].
  cbn [fold_left]. rewrite fold_join_prefix.
  change (string_join (s :: t :: r) sep) with (s ++ sep ++ string_join (t :: r) sep).
  rewrite <- (IH t). rewrite fold_join_prefix. reflexivity.
Qed.
Lemma string_join_cons : forall s r sep, r <> [] -> string_join (s :: r) sep = s ++ sep ++ string_join r sep.
Proof. intros s r sep H. destruct r; [contradiction|reflexivity]. Qed.
Lemma string_join_app : forall l1 l2 sep, l1 <> [] -> l2 <> [] ->
  string_join (l1 ++ l2) sep = string_join l1 sep ++ sep ++ string_join l2 sep.
Proof.
  intros l1. induction l1 as [|s r IH]; intros l2 sep H1 H2; [contradiction|].
  destruct r as [|t r].
  - cbn [app]. apply string_join_cons. exact H2.
  - change ((s :: t :: r) ++ l2) with (s :: ((t :: r) ++ l2)).
    rewrite string_join_cons by discriminate. rewrite (IH l2 sep) by (discriminate || exact H2).
    rewrite (string_join_cons s (t :: r)) by discriminate. rewrite <- !app_assoc. reflexivity.
Qed.
Lemma string_join_empty_sep : forall l, string_join l [] = concat l.
Proof.
  induction l as [|s r IH]; [reflexivity|]. destruct r as [|t r].
  - cbn. rewrite app_nil_r. reflexivity.
  - rewrite string_join_cons by discriminate. rewrite IH. reflexivity.
Qed.
Lemma string_join_length : forall l sep, l <> [] ->
  (length (string_join l sep) + length sep = length (concat l) + length l * length sep)%nat.
Proof.
  induction l as [|s r IH]; intros sep H; [contradiction|]. destruct r as [|t r].
  - cbn. rewrite app_nil_r. lia.
  - rewrite string_join_cons by discriminate. cbn [concat length]. rewrite !app_length.
    specialize (IH sep ltac:(discriminate)). cbn [concat length] in IH. rewrite !app_length in IH. lia.
Qed.
