(* C08 typed model: proofs *)
From Coq Require Import ZArith List Bool Lia Sorted.
From EP Require Import C15.Keys C15.KeysProofs C08.Typed.
Import ListNotations.
Open Scope Z_scope.

(* ---- distinct-values ---- *)
Lemma dv_loop_incl : forall l seen x, In x (dv_loop l seen) -> In x l.
Proof.
  induction l as [|y r IH]; intros seen x H; cbn in H; [destruct H|].
  destruct (existsb (dv_same y) seen).
  - right. apply (IH seen). exact H.
  - destruct H as [<-|H]; [left; reflexivity|right; apply (IH (y :: seen)); exact H].
Qed.
(* a kept value is not the same as any value seen before it *)
Lemma dv_loop_fresh : forall l seen x, In x (dv_loop l seen) -> forall s, In s seen -> dv_same x s = false.
Proof.
  induction l as [|y r IH]; intros seen x H s Hs; cbn in H; [destruct H|].
  destruct (existsb (dv_same y) seen) eqn:E.
  - apply (IH seen x H s Hs).
  - destruct H as [<-|H].
    + destruct (dv_same y s) eqn:D; auto.
      assert (existsb (dv_same y) seen = true) by (apply existsb_exists; exists s; auto). congruence.
    + apply (IH (y :: seen) x H s). right. exact Hs.
Qed.
(* pairwise different: in the result no later value is the same as an earlier one *)
Inductive pairwise_fresh : list av -> Prop :=
| pf_nil : pairwise_fresh []
| pf_cons : forall x r, (forall y, In y r -> dv_same y x = false) -> pairwise_fresh r -> pairwise_fresh (x :: r).
Lemma dv_loop_pairwise : forall l seen, pairwise_fresh (dv_loop l seen).
Proof.
  induction l as [|y r IH]; intros seen; cbn; [constructor|].
  destruct (existsb (dv_same y) seen); [apply IH|].
  constructor; [|apply IH].
  intros z Hz. apply (dv_loop_fresh r (y :: seen) z Hz y). left. reflexivity.
Qed.
(* every input value has a representative: the same as a kept value or as a value already seen *)
Lemma dv_loop_covers : forall l seen x, In x l ->
  (exists s, In s seen /\ dv_same x s = true) \/ (exists k, In k (dv_loop l seen) /\ (k = x \/ dv_same x k = true)).
Proof.
  induction l as [|y r IH]; intros seen x H; [destruct H|]. cbn.
  destruct H as [<-|H].
  - destruct (existsb (dv_same y) seen) eqn:E.
    + left. apply existsb_exists in E. destruct E as (s & Hs & D). exists s. auto.
    + right. exists y. split; [left; reflexivity|left; reflexivity].
  - destruct (existsb (dv_same y) seen) eqn:E.
    + apply (IH seen x H).
    + destruct (IH (y :: seen) x H) as [(s & [<-|Hs] & D)|(k & Hk & D)].
      * right. exists y. split; [left; reflexivity|right; exact D].
      * left. exists s. auto.
      * right. exists k. split; [right; exact Hk|exact D].
Qed.
Lemma distinct_values_spec : forall l,
  (forall x, In x (distinct_values l) -> In x l) /\ pairwise_fresh (distinct_values l) /\
  (forall x, In x l -> exists k, In k (distinct_values l) /\ (k = x \/ dv_same x k = true)).
Proof.
  intros l. unfold distinct_values. split; [intros x; apply dv_loop_incl|]. split; [apply dv_loop_pairwise|].
  intros x H. destruct (dv_loop_covers l [] x H) as [(s & [] & _)|R]; exact R.
Qed.

(* dv_same is an equivalence on values whose numerics are well formed *)
Lemma num_eq_sym : forall a b, num_eq a b = num_eq b a.
Proof. intros [n d| | |] [n' d'| | |]; cbn; auto. apply Z.eqb_sym. Qed.
Lemma av_eq_sym : forall a b, av_eq a b = av_eq b a.
Proof.
  intros a b. unfold av_eq.
  destruct (str_rank a) eqn:A, (str_rank b) eqn:B; auto.
  - rewrite Z.eqb_sym. reflexivity.
  - destruct a, b; cbn in *; try discriminate; auto.
    + rewrite num_eq_sym. reflexivity.
    + destruct b0, b; reflexivity.
    + rewrite (Z.eqb_sym fam fam0). destruct (fam0 =? fam); auto. rewrite Z.eqb_sym. reflexivity.
    + rewrite (Z.eqb_sym fam fam0). destruct (fam0 =? fam); auto. rewrite Z.eqb_sym. reflexivity.
Qed.
Lemma dv_same_sym : forall a b, dv_same a b = dv_same b a.
Proof. intros a b. unfold dv_same. rewrite av_eq_sym, (andb_comm (is_nan a)). reflexivity. Qed.
Lemma dv_same_refl : forall a, dv_same a a = true.
Proof.
  intros [t [n d| | |]|u s|s o|b|f v|f v]; unfold dv_same, av_eq; cbn; auto;
    rewrite ?Z.eqb_refl; cbn; auto; try (destruct b; reflexivity).
Qed.

(* ---- index-of ---- *)
Lemma index_loop_spec : forall l pos v p,
  In p (index_loop l pos v) <-> exists k, nth_error l k = Some (nth k l v) /\ p = pos + Z.of_nat k /\ av_eq (nth k l v) v = Some true.
Proof.
  induction l as [|x r IH]; intros pos v p; cbn.
  - split; [intros []|intros (k & H & _)]. destruct k; discriminate.
  - rewrite in_app_iff, IH. split.
    + intros [H|(k & H1 & H2 & H3)].
      * destruct (av_eq x v) as [[|]|] eqn:E; cbn in H; try tauto. destruct H as [<-|[]].
        exists O. cbn. split; [reflexivity|]. split; [lia|exact E].
      * exists (S k). cbn. split; [exact H1|]. split; [lia|exact H3].
    + intros (k & H1 & H2 & H3). destruct k as [|k].
      * left. cbn in H3. rewrite H3. left. lia.
      * right. exists k. cbn in H1, H3. split; [exact H1|]. split; [lia|exact H3].
Qed.
Lemma index_loop_sorted : forall l pos v, StronglySorted Z.lt (index_loop l pos v) /\ forall p, In p (index_loop l pos v) -> pos <= p.
Proof.
  induction l as [|x r IH]; intros pos v; cbn; [split; [constructor|intros p []]|].
  destruct (IH (pos + 1) v) as (S1 & S2).
  destruct (av_eq x v) as [[|]|]; cbn.
  - split.
    + constructor; [exact S1|]. apply Forall_forall. intros q Hq. specialize (S2 q Hq). lia.
    + intros p [<-|Hp]; [lia|]. specialize (S2 p Hp). lia.
  - split; [exact S1|]. intros p Hp. specialize (S2 p Hp). lia.
  - split; [exact S1|]. intros p Hp. specialize (S2 p Hp). lia.
Qed.

(* ---- min / max on finite numeric values: the fold picks a bound that is one of the values ---- *)
Definition nfin (v : nval) : bool := match v with NFin _ _ => true | _ => false end.
Definition nle (a b : nval) : bool := negb (nval_lt b a).
Lemma nle_refl : forall a, nfin a = true -> nle a a = true.
Proof. intros [n d| | |] H; try discriminate. unfold nle, nval_lt. apply negb_true_iff. apply Z.ltb_ge. lia. Qed.
Lemma nle_trans : forall a b c, nfin a = true -> nfin b = true -> nfin c = true -> nle a b = true -> nle b c = true -> nle a c = true.
Proof.
  intros [n1 d1| | |] [n2 d2| | |] [n3 d3| | |] A B C; try discriminate. unfold nle, nval_lt. rewrite !negb_true_iff, !Z.ltb_ge. nia.
Qed.
Lemma nle_total : forall a b, nfin a = true -> nfin b = true -> nle a b = true \/ nle b a = true.
Proof.
  intros [n1 d1| | |] [n2 d2| | |] A B; try discriminate. unfold nle, nval_lt. rewrite !negb_true_iff, !Z.ltb_ge. lia.
Qed.
Lemma pick_n_fin : forall mx a b, nfin a = true -> nfin b = true -> nfin (pick_n mx a b) = true.
Proof. intros mx a b A B. unfold pick_n. destruct mx; [destruct (nval_lt a b)|destruct (nval_lt b a)]; auto. Qed.
Lemma pick_min_le : forall v y, nfin v = true -> nfin y = true ->
  nle (pick_n false v y) v = true /\ nle (pick_n false v y) y = true /\ (pick_n false v y = v \/ pick_n false v y = y).
Proof.
  intros [n1 d1| | |] [n2 d2| | |] V Y; try discriminate. unfold pick_n, nle, nval_lt.
  destruct (n2 * Z.pos d1 <? n1 * Z.pos d2) eqn:E.
  - apply Z.ltb_lt in E. rewrite !negb_true_iff, !Z.ltb_ge. split; [lia|]. split; [lia|right; reflexivity].
  - apply Z.ltb_ge in E. rewrite !negb_true_iff, !Z.ltb_ge. split; [lia|]. split; [lia|left; reflexivity].
Qed.
Lemma fold_min_spec : forall r v, nfin v = true -> forallb nfin r = true ->
  nfin (fold_left (pick_n false) r v) = true /\ In (fold_left (pick_n false) r v) (v :: r) /\
  forall x, In x (v :: r) -> nle (fold_left (pick_n false) r v) x = true.
Proof.
  induction r as [|y r IH]; intros v V R.
  - cbn [fold_left]. split; [exact V|]. split; [left; reflexivity|]. intros x [<-|[]]. apply nle_refl. exact V.
  - cbn [fold_left]. cbn [forallb] in R. apply andb_true_iff in R. destruct R as (Y & R).
    destruct (pick_min_le v y V Y) as (P1 & P2 & P3).
    assert (P : nfin (pick_n false v y) = true) by (destruct P3 as [->| ->]; assumption).
    destruct (IH (pick_n false v y) P R) as (M1 & M2 & M3).
    split; [exact M1|]. split.
    + destruct M2 as [M2|M2]; [|right; right; exact M2].
      rewrite <- M2. destruct P3 as [->| ->]; [left; reflexivity|right; left; reflexivity].
    + intros x Hx.
      assert (M0 := M3 (pick_n false v y) (or_introl eq_refl)).
      destruct Hx as [<-|[<-|Hx]].
      * apply (nle_trans _ (pick_n false v y) v); auto.
      * apply (nle_trans _ (pick_n false v y) y); auto.
      * apply M3. right. exact Hx.
Qed.

(* ---- sum: on finite values the left fold is the exact rational sum, whatever the grouping ---- *)
Lemma nval_add_comm : forall a b, nval_eq (nval_add a b) (nval_add b a) = true.
Proof. intros [n1 d1| | |] [n2 d2| | |]; cbn; auto. apply Z.eqb_eq. lia. Qed.
Lemma nval_add_fin : forall a b, nfin a = true -> nfin b = true -> nfin (nval_add a b) = true.
Proof. intros [n1 d1| | |] [n2 d2| | |] A B; try discriminate; reflexivity. Qed.
Lemma nval_add_assoc : forall a b c, nfin a = true -> nfin b = true -> nfin c = true ->
  nval_eq (nval_add (nval_add a b) c) (nval_add a (nval_add b c)) = true.
Proof. intros [n1 d1| | |] [n2 d2| | |] [n3 d3| | |] A B C; try discriminate. cbn. apply Z.eqb_eq. nia. Qed.
Lemma nval_add_congr_l : forall u v y, nfin u = true -> nfin v = true -> nfin y = true -> nval_eq u v = true ->
  nval_eq (nval_add u y) (nval_add v y) = true.
Proof.
  intros [n1 d1| | |] [n2 d2| | |] [n3 d3| | |] U V Y E; try discriminate. cbn in *. apply Z.eqb_eq in E. apply Z.eqb_eq. nia.
Qed.
Lemma nval_add_congr_r : forall a u v, nfin a = true -> nfin u = true -> nfin v = true -> nval_eq u v = true ->
  nval_eq (nval_add a u) (nval_add a v) = true.
Proof.
  intros [n1 d1| | |] [n2 d2| | |] [n3 d3| | |] A U V E; try discriminate. cbn in *. apply Z.eqb_eq in E. apply Z.eqb_eq. nia.
Qed.
Lemma fold_add_fin : forall l u, forallb nfin l = true -> nfin u = true -> nfin (fold_left nval_add l u) = true.
Proof.
  induction l as [|y r IH]; intros u L U; cbn; [exact U|]. cbn in L. apply andb_true_iff in L. destruct L as (Y & L).
  apply IH; [exact L|apply nval_add_fin; auto].
Qed.
Lemma fold_add_congr : forall l u v, forallb nfin l = true -> nfin u = true -> nfin v = true -> nval_eq u v = true ->
  nval_eq (fold_left nval_add l u) (fold_left nval_add l v) = true.
Proof.
  induction l as [|y r IH]; intros u v L U V E; cbn; [exact E|]. cbn in L. apply andb_true_iff in L. destruct L as (Y & L).
  apply IH; auto using nval_add_fin. apply nval_add_congr_l; auto.
Qed.
Lemma fold_add_shift : forall l a b, forallb nfin l = true -> nfin a = true -> nfin b = true ->
  nval_eq (fold_left nval_add l (nval_add a b)) (nval_add a (fold_left nval_add l b)) = true.
Proof.
  induction l as [|y r IH]; intros a b L A B; cbn; [apply nval_eq_refl|].
  cbn in L. apply andb_true_iff in L. destruct L as (Y & L).
  eapply nval_eq_trans; [|apply (IH a (nval_add b y)); auto using nval_add_fin].
  apply fold_add_congr; auto using nval_add_fin. apply nval_add_assoc; auto.
Qed.
Lemma nsum_cons : forall x l, nfin x = true -> forallb nfin l = true ->
  nval_eq (nsum (x :: l)) (nval_add x (nsum l)) = true.
Proof.
  intros x l X L. unfold nsum. cbn [fold_left].
  eapply nval_eq_trans; [|apply (fold_add_shift l x (NFin 0 1)); auto].
  apply fold_add_congr; auto using nval_add_fin. apply nval_add_comm.
Qed.

(* ---- deep-equal ---- *)
Lemma deep_equal_refl : forall l, deep_equal l l = true.
Proof. induction l as [|x r IH]; cbn; auto. rewrite dv_same_refl. exact IH. Qed.
Lemma deep_equal_sym : forall l1 l2, deep_equal l1 l2 = deep_equal l2 l1.
Proof.
  induction l1 as [|x r IH]; intros [|y r2]; cbn; auto. rewrite dv_same_sym, IH. reflexivity.
Qed.
Lemma deep_equal_length : forall l1 l2, deep_equal l1 l2 = true -> length l1 = length l2.
Proof.
  induction l1 as [|x r IH]; intros [|y r2] H; cbn in *; try discriminate; auto.
  apply andb_true_iff in H. destruct H as (_ & H). rewrite (IH r2 H). reflexivity.
Qed.
Lemma deep_equal_nth : forall l1 l2, deep_equal l1 l2 = true ->
  forall k x y, nth_error l1 k = Some x -> nth_error l2 k = Some y -> dv_same x y = true.
Proof.
  induction l1 as [|a r IH]; intros [|b r2] H k x y H1 H2; cbn in H; try discriminate.
  - destruct k; discriminate.
  - apply andb_true_iff in H. destruct H as (Hab & H). destruct k as [|k]; cbn in H1, H2.
    + injection H1 as <-. injection H2 as <-. exact Hab.
    + apply (IH r2 H k x y H1 H2).
Qed.

(* ---- the same-value relation of distinct-values is transitive: its classes partition the values ---- *)
Lemma num_eq_trans : forall a b c, num_eq a b = true -> num_eq b c = true -> num_eq a c = true.
Proof.
  intros [n1 d1| | |] [n2 d2| | |] [n3 d3| | |]; cbn; intros H1 H2; try discriminate; auto.
  apply Z.eqb_eq in H1. apply Z.eqb_eq in H2. apply Z.eqb_eq. nia.
Qed.
Lemma dv_same_num : forall t1 v1 t2 v2, dv_same (ANum t1 v1) (ANum t2 v2) = nval_eq v1 v2.
Proof. intros t1 [n1 d1| | |] t2 [n2 d2| | |]; cbn; auto. destruct (n1 * Z.pos d2 =? n2 * Z.pos d1); reflexivity. Qed.
Lemma dv_same_trans : forall a b c, dv_same a b = true -> dv_same b c = true -> dv_same a c = true.
Proof.
  intros a b c.
  destruct a as [t1 v1|u1 s1|s1 o1|b1|f1 x1|f1 x1], b as [t2 v2|u2 s2|s2 o2|b2|f2 x2|f2 x2], c as [t3 v3|u3 s3|s3 o3|b3|f3 x3|f3 x3];
    try (rewrite !dv_same_num; apply nval_eq_trans);
    unfold dv_same, av_eq; cbn; intros H1 H2; try rewrite andb_false_r in H1; try rewrite andb_false_r in H2; cbn in H1, H2; try discriminate; auto;
    try (destruct b1, b2, b3; auto; fail);
    repeat match goal with
    | H : context [if ?x =? ?y then _ else _] |- _ => destruct (x =? y) eqn:?; try discriminate
    | H : (?x =? ?y) = true |- _ => apply Z.eqb_eq in H; subst
    end; rewrite ?Z.eqb_refl; auto.
Qed.

(* ---- numeric promotion: the type of a numeric aggregate is the greatest of the operand types ---- *)
Lemma tpromote_rank : forall a b, trank (tpromote a b) = Z.max (trank a) (trank b).
Proof. intros a b. unfold tpromote. destruct (trank a <? trank b) eqn:E; [apply Z.ltb_lt in E|apply Z.ltb_ge in E]; lia. Qed.
Lemma num_type_fold_rank : forall l t, trank t <= trank (fold_left (fun t a => match a with ANum u _ => tpromote t u | _ => t end) l t) /\
  forall u v, In (ANum u v) l -> trank u <= trank (fold_left (fun t a => match a with ANum u _ => tpromote t u | _ => t end) l t).
Proof.
  induction l as [|a r IH]; intros t; cbn [fold_left]; [split; [lia|intros u' v' []]|].
  destruct a as [u0 v0|a1 a2|a1 a2|a1|a1 a2|a1 a2].
  - destruct (IH (tpromote t u0)) as (A & B). rewrite tpromote_rank in A. split; [lia|].
    intros u' v' [E|H]; [injection E as <- <-; lia|apply (B u' v' H)].
  - destruct (IH t) as (A & B). split; [exact A|]. intros u' v' [E|H]; [discriminate|apply (B u' v' H)].
  - destruct (IH t) as (A & B). split; [exact A|]. intros u' v' [E|H]; [discriminate|apply (B u' v' H)].
  - destruct (IH t) as (A & B). split; [exact A|]. intros u' v' [E|H]; [discriminate|apply (B u' v' H)].
  - destruct (IH t) as (A & B). split; [exact A|]. intros u' v' [E|H]; [discriminate|apply (B u' v' H)].
  - destruct (IH t) as (A & B). split; [exact A|]. intros u' v' [E|H]; [discriminate|apply (B u' v' H)].
Qed.
Lemma num_type_upper : forall l u v, In (ANum u v) l -> trank u <= trank (num_type l).
Proof. intros l u v H. unfold num_type. apply (proj2 (num_type_fold_rank l TInteger) u v H). Qed.
