(* C08 typed model: fn:distinct-values, fn:index-of, fn:min, fn:max, fn:sum, fn:avg on sequences of typed atomic values
   (F&O 2.0 / 3.1 sections 14.2 / 14.4), the definitions the code is claimed to compute (tied by correspondence).
   Atomic values: numerics as exact rationals or NaN / INF / -INF with their type (C15.Keys.ntype / nval), strings and
   anyURI by the rank of their content in codepoint order, untypedAtomic by content rank plus its xs:double value when
   it casts, booleans, totally ordered families (1 date, 2 dateTime, 3 time, 4 yearMonthDuration in months,
   5 dayTimeDuration in milliseconds) and equality-only families (QName, hexBinary, base64Binary, gYear, duration).
   NO proofs here. *)
From Coq Require Import ZArith List Bool.
From EP Require Import C15.Keys.
Import ListNotations.
Open Scope Z_scope.

Inductive av :=
| ANum (t : ntype) (v : nval)
| AStr (uri : bool) (s : Z)
| AUntyped (s : Z) (num : option nval)
| ABool (b : bool)
| AOrd (fam : Z) (v : Z)
| AEq (fam : Z) (v : Z).

(* ---- the value comparison eq after the untypedAtomic -> xs:string conversion; None = not comparable ---- *)
Definition num_eq (a b : nval) : bool := match a, b with NNaN, _ | _, NNaN => false | _, _ => nval_eq a b end.
Definition str_rank (a : av) : option Z := match a with AStr _ s => Some s | AUntyped s _ => Some s | _ => None end.
Definition av_eq (a b : av) : option bool :=
  match str_rank a, str_rank b with
  | Some s, Some t => Some (s =? t)
  | Some _, None | None, Some _ => None
  | None, None =>
    match a, b with
    | ANum _ x, ANum _ y => Some (num_eq x y)
    | ABool x, ABool y => Some (eqb x y)
    | AOrd f x, AOrd g y => if f =? g then Some (x =? y) else None
    | AEq f x, AEq g y => if f =? g then Some (x =? y) else None
    | _, _ => None
    end
  end.

(* ---- fn:distinct-values: NaN is equal to NaN, values that are not comparable are distinct ---- *)
Definition is_nan (a : av) : bool := match a with ANum _ NNaN => true | _ => false end.
Definition dv_same (a b : av) : bool :=
  (is_nan a && is_nan b) || match av_eq a b with Some true => true | _ => false end.
(* the first value of each class is kept *)
Fixpoint dv_loop (l seen : list av) : list av :=
  match l with
  | [] => []
  | x :: r => if existsb (dv_same x) seen then dv_loop r seen else x :: dv_loop r (x :: seen)
  end.
Definition distinct_values (l : list av) : list av := dv_loop l [].

(* ---- fn:index-of: the positions whose item is eq to the search value ---- *)
Fixpoint index_loop (l : list av) (pos : Z) (v : av) : list Z :=
  match l with
  | [] => []
  | x :: r => (match av_eq x v with Some true => [pos] | _ => [] end) ++ index_loop r (pos + 1) v
  end.
Definition index_of (l : list av) (v : av) : list Z := index_loop l 1 v.

(* ---- fn:min / fn:max / fn:sum / fn:avg ---- *)
Inductive res := RVal (a : av) | REmpty | RErr (c : Z).
(* c: 1 FORG0001 (an untypedAtomic item does not cast to xs:double), 6 FORG0006 (values without a common ordered /
   numeric type), 16 both conditions hold (either code) *)

Definition trank (t : ntype) : Z := match t with TInteger => 0 | TDecimal => 1 | TFloat => 2 | TDouble => 3 end.
Definition tpromote (a b : ntype) : ntype := if trank a <? trank b then b else a.
(* order of numeric values without NaN *)
Definition nval_lt (a b : nval) : bool :=
  match a, b with
  | NFin n1 d1, NFin n2 d2 => n1 * Zpos d2 <? n2 * Zpos d1
  | NNInf, (NFin _ _ | NPInf) => true
  | NFin _ _, NPInf => true
  | _, _ => false
  end.
(* untypedAtomic items are cast to xs:double *)
Definition conv (a : av) : option av :=
  match a with AUntyped _ (Some v) => Some (ANum TDouble v) | AUntyped _ None => None | _ => Some a end.
Fixpoint conv_all (l : list av) : option (list av) :=
  match l with
  | [] => Some []
  | x :: r => match conv x, conv_all r with Some y, Some r' => Some (y :: r') | _, _ => None end
  end.
(* the error when some untypedAtomic item does not cast: FORG0001, or either code when the typed items are not numeric *)
Definition conv_error (l : list av) : res :=
  if forallb (fun a => match a with ANum _ _ | AUntyped _ _ => true | _ => false end) l then RErr 1 else RErr 16.
Definition all_num (l : list av) : bool := forallb (fun a => match a with ANum _ _ => true | _ => false end) l.
Definition all_str (l : list av) : bool := forallb (fun a => match a with AStr _ _ => true | _ => false end) l.
Definition all_bool (l : list av) : bool := forallb (fun a => match a with ABool _ => true | _ => false end) l.
Definition all_ord (f : Z) (l : list av) : bool := forallb (fun a => match a with AOrd g _ => g =? f | _ => false end) l.
Definition num_type (l : list av) : ntype :=
  fold_left (fun t a => match a with ANum u _ => tpromote t u | _ => t end) l TInteger.
Definition num_vals (l : list av) : list nval := flat_map (fun a => match a with ANum _ v => [v] | _ => [] end) l.
Definition ints_of (l : list av) : list Z :=
  flat_map (fun a => match a with AStr _ s => [s] | ABool b => [if b then 1 else 0] | AOrd _ v => [v] | _ => [] end) l.

Definition pick_n (mx : bool) (a b : nval) : nval := if mx then (if nval_lt a b then b else a) else (if nval_lt b a then b else a).
Definition pick_z (mx : bool) (a b : Z) : Z := if mx then Z.max a b else Z.min a b.
Definition extreme (mx : bool) (l : list av) : res :=
  match conv_all l with
  | None => conv_error l
  | Some [] => REmpty
  | Some ((x :: _) as c) =>
    if all_num c then
      let t := num_type c in
      if existsb (fun v => match v with NNaN => true | _ => false end) (num_vals c) then RVal (ANum t NNaN)
      else match num_vals c with v :: r => RVal (ANum t (fold_left (pick_n mx) r v)) | [] => REmpty end
    else if all_str c then
      match ints_of c with
      | v :: r => RVal (AStr (forallb (fun a => match a with AStr true _ => true | _ => false end) c) (fold_left (pick_z mx) r v))
      | [] => REmpty end
    else if all_bool c then
      match ints_of c with v :: r => RVal (ABool (negb (fold_left (pick_z mx) r v =? 0))) | [] => REmpty end
    else match x with
         | AOrd f _ => if all_ord f c then match ints_of c with v :: r => RVal (AOrd f (fold_left (pick_z mx) r v)) | [] => REmpty end
                       else RErr 6
         | _ => RErr 6
         end
  end.

(* IEEE addition on the extended values (finite values are exact rationals) *)
Definition nval_add (a b : nval) : nval :=
  match a, b with
  | NNaN, _ | _, NNaN => NNaN
  | NPInf, NNInf | NNInf, NPInf => NNaN
  | NPInf, _ | _, NPInf => NPInf
  | NNInf, _ | _, NNInf => NNInf
  | NFin n1 d1, NFin n2 d2 => NFin (n1 * Zpos d2 + n2 * Zpos d1) (d1 * d2)
  end.
Definition nsum (l : list nval) : nval := fold_left nval_add l (NFin 0 1).
Definition is_dur (f : Z) : bool := (f =? 4) || (f =? 5).
Definition sum_ (l : list av) : res :=
  match conv_all l with
  | None => conv_error l
  | Some [] => RVal (ANum TInteger (NFin 0 1))
  | Some ((x :: _) as c) =>
    if all_num c then RVal (ANum (num_type c) (nsum (num_vals c)))
    else match x with
         | AOrd f _ => if is_dur f && all_ord f c then RVal (AOrd f (fold_left Z.add (ints_of c) 0)) else RErr 6
         | _ => RErr 6
         end
  end.
Definition ndiv (a : nval) (c : positive) : nval := match a with NFin n d => NFin n (d * c) | x => x end.
(* fn:avg: the average of xs:integer values is an xs:decimal; yearMonthDuration div n rounds the months half up,
   dayTimeDuration div n is taken in whole milliseconds (the harness only judges the divisible cases) *)
Definition avg_ (l : list av) : res :=
  match conv_all l with
  | None => conv_error l
  | Some [] => REmpty
  | Some ((x :: _) as c) =>
    let n := Z.of_nat (length c) in
    if all_num c then
      let t := num_type c in
      RVal (ANum (match t with TInteger => TDecimal | _ => t end) (ndiv (nsum (num_vals c)) (Pos.of_nat (length c))))
    else match x with
         | AOrd f _ =>
           if is_dur f && all_ord f c then
             let s := fold_left Z.add (ints_of c) 0 in
             RVal (AOrd f (if f =? 4 then (2 * s + n) / (2 * n) else s / n))
           else RErr 6
         | _ => RErr 6
         end
  end.

(* ---- fn:deep-equal on sequences of atomic values: same length and pairwise the same value (eq, NaN = NaN, values that
   are not comparable are different) ---- *)
Fixpoint deep_equal (l1 l2 : list av) : bool :=
  match l1, l2 with
  | [], [] => true
  | x :: r1, y :: r2 => dv_same x y && deep_equal r1 r2
  | _, _ => false
  end.
