(* C08 / C05 — XPathContext.iter_product: the index-stack loop over lazily (re)created iterators computes the dependent
   Cartesian product in lexicographic order.

     iterators = [x(self) for x in selectors]; prod = [None] * dimension; k = 0
     while True:
         for value in iterators[k]:
             self.variables[varnames[k]] = value; prod[k] = value
             if k == max_index: yield tuple(prod)
             else: k += 1
             break
         else:
             if not k: return
             iterators[k] = selectors[k](self); k -= 1

   A selector is a generator function: creating the generator evaluates nothing; the range expression is evaluated at
   the first next(), in the variables as they are then (the values written for the levels below).  Iterator k is
   modelled as None (created, not started) or Some l (remaining values). *)
From Coq Require Import ZArith List Bool Arith Lia.
Import ListNotations.

Section IterProduct.
Variable n : nat.                               (* dimension, n >= 1 *)
Variable sel : nat -> list Z -> list Z.         (* range k, given the values of the variables 0 .. k-1 *)

Record st := mk { lev : nat; its : nat -> option (list Z); prod : nat -> Z; out : list (list Z); fin : bool }.
Definition upd {A} (f : nat -> A) (k : nat) (v : A) : nat -> A := fun j => if Nat.eqb j k then v else f j.
Definition prefix (p : nat -> Z) (k : nat) : list Z := map p (seq 0 k).

Definition step (s : st) : st :=
  if fin s then s else
  let k := lev s in
  match its s k with
  | None => mk k (upd (its s) k (Some (sel k (prefix (prod s) k)))) (prod s) (out s) false      (* first next() *)
  | Some (v :: r) =>
      let p := upd (prod s) k v in
      let i := upd (its s) k (Some r) in
      if Nat.eqb k (n - 1) then mk k i p (out s ++ [prefix p n]) false else mk (S k) i p (out s) false
  | Some [] =>
      if Nat.eqb k 0 then mk k (its s) (prod s) (out s) true
      else mk (k - 1) (upd (its s) k None) (prod s) (out s) false
  end.
Fixpoint run (fuel : nat) (s : st) : st := match fuel with O => s | S f => run f (step s) end.
Definition init : st := mk 0 (fun _ => None) (fun _ => 0%Z) [] false.

(* specification: the dependent product, lexicographic *)
Fixpoint dp (d : nat) (pre : list Z) : list (list Z) :=
  match d with
  | O => [pre]
  | S d' => flat_map (fun v => dp d' (pre ++ [v])) (sel (length pre) pre)
  end.

Lemma run_add : forall a b s, run (a + b) s = run b (run a s).
Proof. induction a as [|a IH]; intros b s; cbn; auto. Qed.

Lemma prefix_upd_ge : forall p k j v, (k <= j)%nat -> prefix (upd p j v) k = prefix p k.
Proof.
  intros p k j v H. unfold prefix. apply map_ext_in. intros a Ha. apply in_seq in Ha. unfold upd.
  destruct (Nat.eqb a j) eqn:E; auto. apply Nat.eqb_eq in E. lia.
Qed.
Lemma prefix_S : forall p k, prefix p (S k) = prefix p k ++ [p k].
Proof. intros p k. unfold prefix. rewrite seq_S, map_app. reflexivity. Qed.
Lemma prefix_length : forall p k, length (prefix p k) = k.
Proof. intros. unfold prefix. rewrite map_length, seq_length. reflexivity. Qed.

(* processing level k until its iterator is exhausted *)
Definition level_post (k : nat) (s s' : st) (emitted : list (list Z)) : Prop :=
  lev s' = k /\ fin s' = false /\ its s' k = Some [] /\
  (forall j, (j < k)%nat -> its s' j = its s j) /\ (forall j, (k < j)%nat -> its s' j = None) /\
  prefix (prod s') k = prefix (prod s) k /\ out s' = out s ++ emitted.

Lemma level : forall d k, (k + d = n - 1)%nat -> (1 <= n)%nat -> forall l s,
  lev s = k -> fin s = false -> its s k = Some l -> (forall j, (k < j)%nat -> its s j = None) ->
  exists f s', run f s = s' /\
    level_post k s s' (flat_map (fun v => dp d (prefix (prod s) k ++ [v])) l).
Proof.
  induction d as [|d IHd]; intros k Hk Hn.
  - (* innermost level: k = n - 1 *)
    induction l as [|v r IHr]; intros s Hl Hf Hi Hab.
    + exists 0%nat, s. split; [reflexivity|]. unfold level_post. cbn. rewrite app_nil_r. repeat split; auto.
    + set (s1 := step s).
      assert (E1 : s1 = mk k (upd (its s) k (Some r)) (upd (prod s) k v) (out s ++ [prefix (upd (prod s) k v) n]) false).
      { unfold s1, step. rewrite Hf, Hl, Hi. replace (Nat.eqb k (n - 1)) with true by (symmetry; apply Nat.eqb_eq; lia). reflexivity. }
      destruct (IHr s1) as (f & s' & R & P).
      * rewrite E1. reflexivity.
      * rewrite E1. reflexivity.
      * rewrite E1. cbn. unfold upd. rewrite Nat.eqb_refl. reflexivity.
      * intros j Hj. rewrite E1. cbn. unfold upd. replace (Nat.eqb j k) with false by (symmetry; apply Nat.eqb_neq; lia). apply Hab. exact Hj.
      * exists (S f), s'. split; [exact R|]. destruct P as (P1 & P2 & P3 & P4 & P5 & P6 & P7). unfold level_post.
        repeat split; auto.
        -- intros j Hj. rewrite (P4 j Hj). rewrite E1. cbn. unfold upd. replace (Nat.eqb j k) with false by (symmetry; apply Nat.eqb_neq; lia). reflexivity.
        -- rewrite P6. rewrite E1. cbn. apply prefix_upd_ge. lia.
        -- rewrite P7. rewrite E1. cbn [out prod]. rewrite <- app_assoc. f_equal. cbn [flat_map dp]. f_equal.
           ++ replace n with (S k) by lia. rewrite prefix_S. rewrite prefix_upd_ge by lia. unfold upd at 1. rewrite Nat.eqb_refl. reflexivity.
           ++ apply flat_map_ext. intros a. rewrite prefix_upd_ge by lia. reflexivity.
  - (* an outer level: k < n - 1 *)
    induction l as [|v r IHr]; intros s Hl Hf Hi Hab.
    + exists 0%nat, s. split; [reflexivity|]. unfold level_post. cbn. rewrite app_nil_r. repeat split; auto.
    + (* pull v, go up, lazily start level k+1, run it, come back *)
      set (i1 := upd (its s) k (Some r)). set (p1 := upd (prod s) k v).
      set (s1 := mk (S k) i1 p1 (out s) false).
      assert (E1 : step s = s1).
      { unfold step. rewrite Hf, Hl, Hi. replace (Nat.eqb k (n - 1)) with false by (symmetry; apply Nat.eqb_neq; lia). reflexivity. }
      assert (I1 : i1 (S k) = None).
      { unfold i1, upd. replace (Nat.eqb (S k) k) with false by (symmetry; apply Nat.eqb_neq; lia). apply Hab. lia. }
      set (s2 := mk (S k) (upd i1 (S k) (Some (sel (S k) (prefix p1 (S k))))) p1 (out s) false).
      assert (E2 : step s1 = s2).
      { unfold s1, step. cbn [fin lev its prod out]. rewrite I1. reflexivity. }
      destruct (IHd (S k) ltac:(lia) Hn (sel (S k) (prefix p1 (S k))) s2) as (f & s3 & R3 & P3).
      * reflexivity.
      * reflexivity.
      * unfold s2. cbn. unfold upd at 1. rewrite Nat.eqb_refl. reflexivity.
      * intros j Hj. unfold s2. cbn. unfold upd at 1. replace (Nat.eqb j (S k)) with false by (symmetry; apply Nat.eqb_neq; lia).
        unfold i1, upd. replace (Nat.eqb j k) with false by (symmetry; apply Nat.eqb_neq; lia). apply Hab. lia.
      * destruct P3 as (Q1 & Q2 & Q3 & Q4 & Q5 & Q6 & Q7).
        set (s4 := mk k (upd (its s3) (S k) None) (prod s3) (out s3) false).
        assert (E4 : step s3 = s4).
        { unfold step. rewrite Q2, Q1, Q3. cbn [Nat.eqb]. replace (S k - 1)%nat with k by lia. reflexivity. }
        assert (I4 : its s4 k = Some r).
        { unfold s4. cbn. unfold upd at 1. replace (Nat.eqb k (S k)) with false by (symmetry; apply Nat.eqb_neq; lia).
          rewrite (Q4 k ltac:(lia)). unfold s2. cbn. unfold upd at 1. replace (Nat.eqb k (S k)) with false by (symmetry; apply Nat.eqb_neq; lia).
          unfold i1, upd. rewrite Nat.eqb_refl. reflexivity. }
        assert (X : prefix (prod s3) k = prefix p1 k).
        { assert (Y : prefix (prod s3) (S k) = prefix (prod s2) (S k)) by exact Q6.
          rewrite !prefix_S in Y. apply app_inj_tail in Y. destruct Y as (Y & _). exact Y. }
        assert (X1 : prefix p1 k = prefix (prod s) k) by (unfold p1; apply prefix_upd_ge; lia).
        destruct (IHr s4) as (f5 & s5 & R5 & P5).
        -- reflexivity.
        -- reflexivity.
        -- exact I4.
        -- intros j Hj. unfold s4. cbn. unfold upd at 1. destruct (Nat.eqb j (S k)) eqn:Ej; auto. apply Q5. apply Nat.eqb_neq in Ej. lia.
        -- exists (2 + f + 1 + f5)%nat, s5. split.
           { replace (2 + f + 1 + f5)%nat with (2 + (f + (1 + f5)))%nat by lia. rewrite (run_add 2). cbn [run]. rewrite E1, E2.
             rewrite (run_add f). rewrite R3. rewrite (run_add 1). cbn [run]. rewrite E4. exact R5. }
           destruct P5 as (T1 & T2 & T3 & T4 & T5 & T6 & T7). unfold level_post. repeat split; auto.
           ++ intros j Hj. rewrite (T4 j Hj). unfold s4. cbn. unfold upd at 1. replace (Nat.eqb j (S k)) with false by (symmetry; apply Nat.eqb_neq; lia).
              rewrite (Q4 j ltac:(lia)). unfold s2. cbn. unfold upd at 1. replace (Nat.eqb j (S k)) with false by (symmetry; apply Nat.eqb_neq; lia).
              unfold i1, upd. replace (Nat.eqb j k) with false by (symmetry; apply Nat.eqb_neq; lia). reflexivity.
           ++ rewrite T6. unfold s4. cbn [prod]. rewrite X. exact X1.
           ++ rewrite T7. unfold s4. cbn [out prod]. rewrite Q7. unfold s2. cbn [out prod].
              rewrite <- app_assoc. f_equal. cbn [flat_map]. f_equal.
              ** cbn [dp]. rewrite app_length, prefix_length. cbn [length]. replace (k + 1)%nat with (S k) by lia.
                 assert (PV : prefix p1 (S k) = prefix (prod s) k ++ [v]).
                 { rewrite prefix_S. rewrite X1. unfold p1, upd. rewrite Nat.eqb_refl. reflexivity. }
                 rewrite PV. reflexivity.
              ** apply flat_map_ext. intros a. rewrite X, X1. reflexivity.
Qed.

(* the whole loop: from the initial state it stops, having yielded exactly the dependent product in order *)
Theorem iter_product_is_dependent_product : (1 <= n)%nat ->
  exists f, fin (run f init) = true /\ out (run f init) = dp n [].
Proof.
  intros Hn.
  set (s1 := step init).
  assert (E1 : s1 = mk 0 (upd (fun _ => None) 0 (Some (sel 0 []))) (fun _ => 0%Z) [] false) by reflexivity.
  destruct (level (n - 1) 0 ltac:(lia) Hn (sel 0 []) s1) as (f & s2 & R & P).
  - rewrite E1. reflexivity.
  - rewrite E1. reflexivity.
  - rewrite E1. reflexivity.
  - intros j Hj. rewrite E1. cbn. unfold upd. replace (Nat.eqb j 0) with false by (symmetry; apply Nat.eqb_neq; lia). reflexivity.
  - destruct P as (P1 & P2 & P3 & _ & _ & _ & P7).
    exists (1 + f + 1)%nat. replace (1 + f + 1)%nat with (1 + (f + 1))%nat by lia. rewrite (run_add 1). cbn [run]. fold s1.
    rewrite (run_add f). rewrite R. cbn [run]. unfold step. rewrite P2, P1, P3. cbn [Nat.eqb fin out]. split; [reflexivity|].
    rewrite P7. rewrite E1. cbn [out prod app]. destruct n as [|m]; [lia|]. cbn [dp length]. replace (S m - 1)%nat with m by lia.
    reflexivity.
Qed.
End IterProduct.
