(* C08 property theorems *)
From Coq Require Import ZArith List Bool.
From EP Require Import C08.IterProduct C08.Model C08.Proofs.
Import ListNotations.
Open Scope Z_scope.

Theorem C08_insert_before : forall l position ins,
  insert_before l position ins =
  firstn (Z.to_nat (Z.max 0 (position - 1))) l ++ ins ++ skipn (Z.to_nat (Z.max 0 (position - 1))) l /\
  length (insert_before l position ins) = (length l + length ins)%nat.
Proof. intros. split; [apply insert_before_spec|apply insert_before_count]. Qed.
Print Assumptions C08_insert_before.

Theorem C08_remove : forall l position,
  (1 <= position -> remove l position = firstn (Z.to_nat (position - 1)) l ++ skipn (S (Z.to_nat (position - 1))) l) /\
  (position < 1 -> remove l position = l).
Proof. intros. split; [apply remove_spec|apply remove_out_of_range]. Qed.
Print Assumptions C08_remove.

Theorem C08_index_of : forall l v p, In p (index_of l v) <-> 1 <= p /\ nth_error l (Z.to_nat (p - 1)) = Some v.
Proof. exact index_of_spec. Qed.
Print Assumptions C08_index_of.

Theorem C08_distinct_values : forall l, NoDup (distinct_values l) /\ forall x, In x (distinct_values l) <-> In x l.
Proof. exact distinct_values_spec. Qed.
Print Assumptions C08_distinct_values.

(* every $x in S satisfies P  =  not(some $x in S satisfies not(P)), for any number of (dependent) ranges *)
Theorem C08_every_not_some_not : forall ranges cond,
  every_expr ranges cond = negb (some_expr ranges (fun e => negb (cond e))).
Proof. exact every_not_some_not. Qed.
Print Assumptions C08_every_not_some_not.

(* for with several variables = nested for; the inner range may depend on the outer variable *)
Theorem C08_for_nested : forall A B f body,
  for_expr [fun _ => A; fun _ => B] body = flat_map (fun x => flat_map (fun y => body [x; y]) B) A /\
  for_expr [fun _ => A; fun env => f (nth 0 env 0)] body = flat_map (fun x => flat_map (fun y => body [x; y]) (f x)) A.
Proof. intros. split; [apply for_two_nested|apply for_dependent]. Qed.
Print Assumptions C08_for_nested.

(* subsequence(S, a, b) = S[round(a) le position() and position() lt round(a) + round(b)] (IEEE rules for INF/NaN) *)
Theorem C08_subsequence_as_filter : forall l a b,
  subsequence l a (Some b) = filter_pos (fun p => ext_le a (EFin p) && ext_lt (EFin p) (ext_add a b)) 1 l /\
  subsequence l a None = filter_pos (fun p => ext_le a (EFin p)) 1 l.
Proof. intros. split; reflexivity. Qed.
Print Assumptions C08_subsequence_as_filter.

Theorem C08_aggregates : forall l1 l2 l m,
  sum (l1 ++ l2) = sum l1 + sum l2 /\ (zmin l = Some m -> In m l /\ forall x, In x l -> m <= x).
Proof. intros. split; [apply sum_app|apply zmin_spec]. Qed.
Print Assumptions C08_aggregates.

(* fn:string-join: the separator.join(items) of the code (a left fold) is the F&O value - the items in order with the
   separator between adjacent items - for every sequence of strings and every separator; with the laws that pin it down:
   concatenation of two non-empty sequences, the empty separator (= fn:concat of the items), and the length *)
Theorem C08_string_join : forall sep l l1 l2,
  py_join sep l = string_join l sep /\
  string_join [] sep = [] /\
  (l1 <> [] -> l2 <> [] -> string_join (l1 ++ l2) sep = string_join l1 sep ++ sep ++ string_join l2 sep) /\
  string_join l [] = concat l /\
  (l <> [] -> (length (string_join l sep) + length sep = length (concat l) + length l * length sep)%nat).
Proof.
  intros sep l l1 l2. split; [apply py_join_is_string_join|]. split; [reflexivity|].
  split; [apply string_join_app|]. split; [apply string_join_empty_sep|apply string_join_length].
Qed.
Print Assumptions C08_string_join.
(* fn:empty and fn:exists are complementary and agree with fn:count *)
Theorem C08_empty_exists : forall l, empty l = negb (exists_ l) /\ (empty l = true <-> length l = 0%nat).
Proof. intros l. destruct l; split; try reflexivity; split; intros H; try reflexivity; discriminate. Qed.
Print Assumptions C08_empty_exists.

Example C08_nonvacuous :
  insert_before [1; 2; 3] 2 [9; 8] = [1; 9; 8; 2; 3] /\ insert_before [1; 2] 7 [9] = [1; 2; 9] /\ remove [1; 2; 3] 2 = [1; 3] /\
  for_expr [fun _ => [1; 2; 3]; fun env => range 1 (nth 0 env 0)] (fun e => [nth 0 e 0 * 10 + nth 1 e 0]) = [11; 21; 22; 31; 32; 33] /\
  subsequence [10; 20; 30; 40] (EFin 0) (Some (EFin 2)) = [10] /\ distinct_values [1; 2; 1; 3; 2] = [1; 2; 3].
Proof. vm_compute. repeat split; reflexivity. Qed.

(* XPathContext.iter_product: the index-stack loop over lazily (re)created iterators - which is what for / some / every
   run - stops and has yielded exactly the dependent Cartesian product, in lexicographic order: any dimension n >= 1,
   any range functions (each may depend on the values chosen for the variables before it) *)
Theorem C08_iter_product_loop : forall n sel, (1 <= n)%nat ->
  exists fuel, fin (run n sel fuel init) = true /\ out (run n sel fuel init) = dp sel n [].
Proof. exact iter_product_is_dependent_product. Qed.
Print Assumptions C08_iter_product_loop.
Example C08_iter_product_nonvacuous :
  let sel := fun (k : nat) pre => match k with O => [1; 2; 3] | _ => map Z.of_nat (seq 1 (Z.to_nat (nth 0 pre 0))) end in
  out (run 2%nat sel 40%nat init) = [[1; 1]; [2; 1]; [2; 2]; [3; 1]; [3; 2]; [3; 3]] /\ fin (run 2%nat sel 40%nat init) = true.
Proof. vm_compute. split; reflexivity. Qed.
