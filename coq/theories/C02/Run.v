From Coq Require Import ZArith List Bool.
From EP Require Import Gen.C02Positions C02.Model.
Import ListNotations.
Open Scope Z_scope.
Definition enc (l : list node) : list (list Z) := map (fun n => [kind n; pos n; ppos n]) l.
Definition run_lxml_doc (pre : list xtree) (root : xtree) (post : list xtree) := enc (build_document incr_lxml pre root post).
Definition run_lxml_elem (root : xtree) := enc (build_element incr_lxml root).
Definition run_et_doc (gn : nat) (gx : bool) (root : xtree) := enc (build_document (incr_et gn gx) [] root []).
Definition run_et_elem (gn : nat) (gx : bool) (root : xtree) := enc (build_element (incr_et gn gx) root).
