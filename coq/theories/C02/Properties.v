(* C02 property theorems *)
From Coq Require Import ZArith List Bool.
From EP Require Import Gen.C02Positions C02.Model C02.Proofs.
Import ListNotations.
Open Scope Z_scope.

(* lxml builder: for every document (comments / PIs around the root included) node positions strictly increase in
   document order - element, then its namespace nodes, then its attributes, then text and children with their
   tails - and every parent precedes its children *)
Theorem C02_positions_strict_lxml : forall pre root post,
  Forall wf_tree pre -> wf_tree root -> Forall wf_tree post ->
  increasing 1 (build_document incr_lxml pre root post) /\ increasing 1 (build_element incr_lxml root).
Proof.
  intros pre root post H1 H2 H3.
  assert (F : forall l, Forall wf_tree l -> Forall (ok_incr incr_lxml) l).
  { intros l H. apply Forall_forall. intros t Ht. apply ok_incr_lxml. rewrite Forall_forall in H. auto. }
  split; [apply document_increasing; auto using ok_incr_lxml|apply element_increasing; apply ok_incr_lxml; exact H2].
Qed.
Print Assumptions C02_positions_strict_lxml.

(* ElementTree builder: one namespaces mapping (gn entries, gx = 'xml' in it) shared by every element *)
Theorem C02_positions_strict_et : forall gn gx root, wf_tree root -> et_tree gn gx root ->
  increasing 1 (build_document (incr_et gn gx) [] root []) /\ increasing 1 (build_element (incr_et gn gx) root).
Proof.
  intros gn gx root H1 H2. pose proof (ok_incr_et gn gx root H1 H2) as H.
  split; [apply document_increasing; auto|apply element_increasing; exact H].
Qed.
Print Assumptions C02_positions_strict_et.

(* hence positions are unique: identity by position is node identity *)
Theorem C02_positions_unique : forall l lo, increasing lo l -> NoDup (map pos l).
Proof. intros l lo H. exact (proj1 (increasing_nodup l lo H)). Qed.
Print Assumptions C02_positions_unique.

(* the regenerated increments reserve exactly the gap: element + namespace nodes + attributes *)
Theorem C02_gap_exact : forall p nns a x, (x = true -> (1 <= nns)%nat) ->
  attr_start p (Z.of_nat nns) (negb x) = ns_first p + Z.of_nat (ns_count nns x) /\
  p + incr_lxml nns a x = attr_start p (Z.of_nat nns) (negb x) + Z.of_nat a /\
  p + incr_et nns x nns a x = attr_start p (Z.of_nat nns) (negb x) + Z.of_nat a.
Proof.
  intros p nns a x H. split; [exact (attr_start_gap p nns x H)|].
  unfold incr_lxml, lxml_elem_incr, incr_et, et_elem_incr, et_ns_pos_offset, attr_start.
  destruct x; cbn [negb]; split; ring.
Qed.
Print Assumptions C02_gap_exact.

Example C02_nonvacuous :
  wf_tree (XElem 2 true 1 true [XComment true; XElem 2 true 0 false [XPI false] true] false) /\
  et_tree 2 true (XElem 2 true 1 true [XComment true; XElem 2 true 0 false [XPI false] true] false) /\
  map pos (build_element incr_lxml (XElem 1 false 2 true [XElem 1 false 0 false [] true] false)) = [1; 2; 3; 4; 5; 6; 7; 8; 9; 10].
Proof. vm_compute. repeat split; auto. Qed.
