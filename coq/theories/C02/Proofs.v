From Coq Require Import ZArith List Bool Lia ZifyBool.
From EP Require Import Gen.C02Positions C02.Model.
Import ListNotations.
Open Scope Z_scope.

(* lo <= pos n1 < pos n2 < ... < hi, parents before children *)
Fixpoint chain (lo : Z) (l : list node) (hi : Z) : Prop :=
  match l with [] => lo <= hi | n :: r => lo <= pos n /\ ppos n < pos n /\ chain (pos n + 1) r hi end.

Lemma chain_le : forall l lo hi, chain lo l hi -> lo <= hi.
Proof. induction l as [|n r IH]; cbn; intros lo hi H; [lia|]. destruct H as (H1 & H2 & H3). apply IH in H3. lia. Qed.
Lemma chain_weak : forall l lo lo' hi hi', chain lo l hi -> lo' <= lo -> hi <= hi' -> chain lo' l hi'.
Proof.
  induction l as [|n r IH]; cbn; intros lo lo' hi hi' H Hl Hh; [lia|].
  destruct H as (H1 & H2 & H3). repeat split; try lia. eapply IH; eauto. lia.
Qed.
Lemma chain_app : forall l1 l2 a b c, chain a l1 b -> chain b l2 c -> chain a (l1 ++ l2) c.
Proof.
  induction l1 as [|n r IH]; cbn; intros l2 a b c H1 H2.
  - eapply chain_weak; eauto; lia.
  - destruct H1 as (Ha & Hb & Hc). repeat split; auto. eapply IH; eauto.
Qed.
Lemma chain_increasing : forall l lo hi, chain lo l hi -> increasing lo l.
Proof. induction l as [|n r IH]; cbn; intros lo hi H; auto. destruct H as (H1 & H2 & H3). repeat split; auto. eapply IH; eauto. Qed.

Lemma chain_seq : forall n start parent k, parent < start ->
  chain start (map (fun q => mknode k q parent) (seqz start n)) (start + Z.of_nat n).
Proof.
  induction n as [|n IH]; intros start parent k Hp; cbn [seqz map chain]; [lia|].
  cbn [pos ppos]. repeat split; try lia.
  replace (start + Z.of_nat (S n)) with (start + 1 + Z.of_nat n) by lia. apply IH. lia.
Qed.

Section Build.
Variable incr : nat -> nat -> bool -> Z.

(* the reserved gap is exactly: the element, its namespace nodes, its attributes *)
Fixpoint ok_incr (t : xtree) : Prop :=
  match t with
  | XElem nns x a _ ch _ =>
      (x = true -> (1 <= nns)%nat) /\ incr nns a x = 1 + Z.of_nat (ns_count nns x) + Z.of_nat a /\
      (fix all (l : list xtree) := match l with [] => True | c :: r => ok_incr c /\ all r end) ch
  | _ => True
  end.

Lemma attr_start_gap : forall p nns x, (x = true -> (1 <= nns)%nat) ->
  attr_start p (Z.of_nat nns) (negb x) = ns_first p + Z.of_nat (ns_count nns x).
Proof. intros p nns x H. unfold attr_start, ns_first, ns_count. destruct x; cbn [negb]; [specialize (H eq_refl)|]; lia. Qed.

Lemma build_chain : forall t parent p, ok_incr t -> parent < p ->
  chain p (fst (build incr t parent p)) (snd (build incr t parent p)) /\ p < snd (build incr t parent p).
Proof.
  fix IH 1. intros [nns x a text ch tl|tl|tl] parent p Hok Hp.
  - cbn [ok_incr] in Hok. destruct Hok as (Hx & Hin & Hch). cbn [build].
    set (p1 := p + incr nns a x).
    set (txt := if text then ([mknode 4 p1 p], p1 + 1) else ([], p1)).
    assert (Htxt : chain p1 (fst txt) (snd txt) /\ p1 <= snd txt).
    { unfold txt. destruct text; cbn; lia. }
    destruct txt as (tx, p2). cbn [fst snd] in Htxt.
    (* children *)
    match goal with |- context [(fix build_list (l : list xtree) (q : Z) {struct l} : list node * Z := @?body build_list l q) ch p2] =>
      set (bl := fix build_list (l : list xtree) (q : Z) {struct l} : list node * Z := body build_list l q) end.
    assert (Hbl : forall l q, (fix all (l : list xtree) := match l with [] => True | c :: r => ok_incr c /\ all r end) l ->
                   p < q -> chain q (fst (bl l q)) (snd (bl l q)) /\ q <= snd (bl l q)).
    { induction l as [|c r IHr]; intros q Hall Hq.
      - cbn. lia.
      - destruct Hall as (Hc & Hr). cbn [bl]. fold bl.
        destruct (IH c p q Hc Hq) as (H1 & H2).
        destruct (build incr c p q) as (ns, q1). cbn [fst snd] in H1, H2.
        set (tlp := if has_tail c then ([mknode 4 q1 p], q1 + 1) else ([], q1)).
        assert (Htl : chain q1 (fst tlp) (snd tlp) /\ q1 <= snd tlp) by (unfold tlp; destruct (has_tail c); cbn; lia).
        destruct tlp as (tl', q2). cbn [fst snd] in Htl.
        destruct (IHr q2 Hr ltac:(lia)) as (H3 & H4).
        destruct (bl r q2) as (rest, q3). cbn [fst snd] in *.
        split; [|lia]. eapply chain_app; [exact H1|]. eapply chain_app; [exact (proj1 Htl)|exact H3]. }
    destruct (Hbl ch p2 Hch ltac:(unfold p1 in *; lia)) as (H5 & H6).
    destruct (bl ch p2) as (chn, p3). cbn [fst snd] in *.
    split; [|unfold p1 in *; lia].
    cbn [chain pos ppos]. split; [lia|]. split; [lia|].
    eapply chain_app; [apply (chain_seq (ns_count nns x) (ns_first p) p 2); unfold ns_first; lia|].
    rewrite <- (attr_start_gap p nns x Hx).
    eapply chain_app; [apply (chain_seq a _ p 3); unfold attr_start; destruct x; cbn [negb]; lia|].
    assert (E : attr_start p (Z.of_nat nns) (negb x) + Z.of_nat a = p1).
    { rewrite (attr_start_gap p nns x Hx). unfold p1, ns_first. lia. }
    rewrite E. eapply chain_app; [exact (proj1 Htxt)|exact H5].
  - cbn. lia.
  - cbn. lia.
Qed.

Lemma siblings_chain : forall l parent q, Forall ok_incr l -> parent < q ->
  chain q (fst (build_siblings incr l parent q)) (snd (build_siblings incr l parent q)) /\
  q <= snd (build_siblings incr l parent q).
Proof.
  induction l as [|c r IH]; intros parent q Hall Hq; cbn [build_siblings]; [cbn; lia|].
  inversion Hall; subst. destruct (build_chain c parent q H1 Hq) as (A & B).
  destruct (build incr c parent q) as (ns, q1). cbn [fst snd] in *.
  destruct (IH parent q1 H2 ltac:(lia)) as (C & D).
  destruct (build_siblings incr r parent q1) as (rest, q2). cbn [fst snd] in *.
  split; [eapply chain_app; eauto|lia].
Qed.

Lemma document_increasing : forall pre root post, Forall ok_incr pre -> ok_incr root -> Forall ok_incr post ->
  increasing 1 (build_document incr pre root post).
Proof.
  intros pre root post Hpre Hroot Hpost. unfold build_document.
  destruct (siblings_chain pre 1 2 Hpre ltac:(lia)) as (A & B).
  destruct (build_siblings incr pre 1 2) as (a, p1). cbn [fst snd] in *.
  destruct (build_chain root 1 p1 Hroot ltac:(lia)) as (C & D).
  destruct (build incr root 1 p1) as (b, p2). cbn [fst snd] in *.
  destruct (siblings_chain post 1 p2 Hpost ltac:(lia)) as (E & F).
  destruct (build_siblings incr post 1 p2) as (c, p3). cbn [fst snd] in *.
  cbn [increasing pos ppos]. split; [lia|]. split; [lia|].
  eapply chain_increasing. eapply chain_app; [exact A|]. eapply chain_app; [exact C|exact E].
Qed.

Lemma element_increasing : forall root, ok_incr root -> increasing 1 (build_element incr root).
Proof.
  intros root H. unfold build_element. destruct (build_chain root 0 1 H ltac:(lia)) as (A & _).
  eapply chain_increasing; eauto.
Qed.
End Build.

(* both builders reserve exactly the gap *)
Lemma ok_incr_lxml : forall t, wf_tree t -> ok_incr incr_lxml t.
Proof.
  fix IH 1. intros [nns x a text ch tl|tl|tl] H; cbn [ok_incr wf_tree] in *; auto.
  destruct H as (Hx & Hch). split; [exact Hx|]. split.
  - unfold incr_lxml, lxml_elem_incr, ns_count. destruct x; [specialize (Hx eq_refl)|]; lia.
  - induction ch as [|c r IHr]; auto. destruct Hch as (Hc & Hr). split; [apply IH; exact Hc|apply IHr; exact Hr].
Qed.
Lemma ok_incr_et : forall gn gx t, wf_tree t -> et_tree gn gx t -> ok_incr (incr_et gn gx) t.
Proof.
  intros gn gx. fix IH 1. intros [nns x a text ch tl|tl|tl] H He; cbn [ok_incr wf_tree et_tree] in *; auto.
  destruct H as (Hx & Hch). destruct He as (Hn & Hxx & Hech). split; [exact Hx|]. split.
  - unfold incr_et, et_elem_incr, et_ns_pos_offset, ns_count. rewrite <- Hn, <- Hxx.
    destruct x; cbn [negb]; [specialize (Hx eq_refl)|]; lia.
  - clear Hn Hxx Hx. induction ch as [|c r IHr]; auto. destruct Hch as (Hc & Hr). destruct Hech as (Hec & Her).
    split; [apply IH; assumption|apply IHr; assumption].
Qed.

(* strictly increasing positions are unique: identity by position is identity of nodes *)
Lemma increasing_nodup : forall l lo, increasing lo l -> NoDup (map pos l) /\ forall n, In n l -> lo <= pos n.
Proof.
  induction l as [|n r IH]; intros lo H; cbn; [split; [constructor|tauto]|].
  destruct H as (H1 & H2 & H3). destruct (IH _ H3) as (Hn & Hb). split.
  - constructor; auto. intros Hin. apply in_map_iff in Hin. destruct Hin as (m & Em & Hm). apply Hb in Hm. lia.
  - intros m [<-|Hm]; [lia|]. apply Hb in Hm. lia.
Qed.
