(* C02 model: positions assigned by build_node_tree / build_lxml_node_tree (tree_builders.py 81-328) and by the
   lazily built namespace / attribute nodes (xpath_nodes.py 861-874, 1098-1106), in the order of
   ElementNode.iter() (element, its namespace nodes, its attributes, then text and children, each child
   followed by its tail).  The increments come from Gen/C02Positions.v (re-translated from /repo each run).
   The deque-driven traversal of the builders is modelled by structural recursion over the same order
   (tied to the code by the correspondence check).  NO proofs here. *)
From Coq Require Import ZArith List Bool.
From EP Require Import Gen.C02Positions.
Import ListNotations.
Open Scope Z_scope.

(* an input tree: what the builders look at *)
Inductive xtree :=
| XElem (nns : nat) (xml_in : bool) (nattr : nat) (text : bool) (ch : list xtree) (tail : bool)
   (* len(nsmap), 'xml' in nsmap, len(attrib), text is not None, children, tail is not None *)
| XComment (tail : bool)
| XPI (tail : bool).

Definition has_tail (t : xtree) : bool :=
  match t with XElem _ _ _ _ _ tl => tl | XComment tl => tl | XPI tl => tl end.

(* kinds: 0 document, 1 element, 2 namespace, 3 attribute, 4 text, 5 comment, 6 processing instruction *)
Record node := mknode { kind : Z; pos : Z; ppos : Z }.

Fixpoint seqz (start : Z) (n : nat) : list Z :=
  match n with O => [] | S n' => start :: seqz (start + 1) n' end.

(* number of namespace nodes of an element: 'xml' plus one per non-xml prefix *)
Definition ns_count (nns : nat) (xml_in : bool) : nat := S (nns - (if xml_in then 1 else 0)).

Section Build.
(* the position increment after an element: ET uses one global namespaces mapping, lxml the element's nsmap *)
Variable incr : nat -> nat -> bool -> Z.   (* len(nsmap) len(attrib) ('xml' in nsmap) *)

Fixpoint build (t : xtree) (parent p : Z) : list node * Z :=
  match t with
  | XComment _ => ([mknode 5 p parent], p + 1)
  | XPI _ => ([mknode 6 p parent], p + 1)
  | XElem nns x a text ch _ =>
    let nsn := map (fun q => mknode 2 q p) (seqz (ns_first p) (ns_count nns x)) in
    let att := map (fun q => mknode 3 q p) (seqz (attr_start p (Z.of_nat nns) (negb x)) a) in
    let p1 := p + incr nns a x in
    let '(txt, p2) := if text then ([mknode 4 p1 p], p1 + 1) else ([], p1) in
    let fix build_list (l : list xtree) (q : Z) : list node * Z :=
      match l with
      | [] => ([], q)
      | c :: r =>
        let '(ns, q1) := build c p q in
        let '(tl, q2) := if has_tail c then ([mknode 4 q1 p], q1 + 1) else ([], q1) in
        let '(rest, q3) := build_list r q2 in
        (ns ++ tl ++ rest, q3)
      end in
    let '(chn, p3) := build_list ch p2 in
    (mknode 1 p parent :: nsn ++ att ++ txt ++ chn, p3)
  end.

(* a document: document node at 1, comments / PIs before the root (lxml), the root, comments / PIs after it *)
Fixpoint build_siblings (l : list xtree) (parent q : Z) : list node * Z :=
  match l with
  | [] => ([], q)
  | c :: r => let '(ns, q1) := build c parent q in let '(rest, q2) := build_siblings r parent q1 in (ns ++ rest, q2)
  end.
Definition build_document (pre : list xtree) (root : xtree) (post : list xtree) : list node :=
  let '(a, p1) := build_siblings pre 1 2 in
  let '(b, p2) := build root 1 p1 in
  let '(c, _) := build_siblings post 1 p2 in
  mknode 0 1 0 :: a ++ b ++ c.
Definition build_element (root : xtree) : list node := fst (build root 0 1).
End Build.

Definition incr_lxml (nns a : nat) (x : bool) : Z := lxml_elem_incr (Z.of_nat nns) (Z.of_nat a) x.
(* ElementTree: one namespaces mapping (len gn, 'xml' in it: gx) for every element *)
Definition incr_et (gn : nat) (gx : bool) (nns a : nat) (x : bool) : Z :=
  et_elem_incr (et_ns_pos_offset (Z.of_nat gn) (negb gx)) (Z.of_nat a).

(* every element of an ElementTree tree reports the global mapping as its nsmap *)
Fixpoint et_tree (gn : nat) (gx : bool) (t : xtree) : Prop :=
  match t with
  | XElem nns x _ _ ch _ => nns = gn /\ x = gx /\ (fix all (l : list xtree) := match l with [] => True | c :: r => et_tree gn gx c /\ all r end) ch
  | _ => True
  end.
(* 'xml' in nsmap implies len(nsmap) >= 1 *)
Fixpoint wf_tree (t : xtree) : Prop :=
  match t with
  | XElem nns x _ _ ch _ => (x = true -> (1 <= nns)%nat) /\ (fix all (l : list xtree) := match l with [] => True | c :: r => wf_tree c /\ all r end) ch
  | _ => True
  end.

(* specification: positions strictly increase along the list, every parent precedes its children *)
Fixpoint increasing (lo : Z) (l : list node) : Prop :=
  match l with [] => True | n :: r => lo <= pos n /\ ppos n < pos n /\ increasing (pos n + 1) r end.
