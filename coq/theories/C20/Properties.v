(* C20 property theorems (statements only; proofs are `exact`/short compositions of Proofs.v lemmas). *)
From Coq Require Import List Bool Arith Lia.
From EP Require Import C20.Model C20.Proofs.
From EP Require Gen.C20Shape.
Import ListNotations.

(* the typing walk with its per-content-model cache assigns to every element exactly the type its parent's content
   model declares for its name (and clears undeclared subtrees): every schema whose content models are identified by
   their identity, every instance, every truthful initial cache *)
Theorem C20_apply_schema_typing : forall T e c, coherent (models T) -> cache_ok (models T) c ->
  forall p, parent_ok (models T) p ->
  fst (walk p e c) = spec_elem (option_map snd p) e /\ cache_ok (models T) (snd (walk p e c)).
Proof. intros T e c Co Hc p Hp. apply walk_ok; auto. apply models_closed. Qed.
Print Assumptions C20_apply_schema_typing.

(* in particular the result does not depend on the cache (nor on the order in which earlier siblings filled it) *)
Theorem C20_cache_irrelevant : forall T e c1 c2 p, coherent (models T) -> cache_ok (models T) c1 -> cache_ok (models T) c2 ->
  parent_ok (models T) p -> fst (walk p e c1) = fst (walk p e c2).
Proof.
  intros T e c1 c2 p Co H1 H2 Hp.
  destruct (C20_apply_schema_typing T e c1 Co H1 p Hp) as (A & _). destruct (C20_apply_schema_typing T e c2 Co H2 p Hp) as (B & _). congruence.
Qed.
Print Assumptions C20_cache_irrelevant.

(* typing never changes the tree that paths are evaluated on: erasing the types gives back the instance *)
Theorem C20_selection_unchanged : forall e p, erase (spec_elem p e) = e.
Proof. exact erase_spec. Qed.
Print Assumptions C20_selection_unchanged.

(* a cache keyed by the *name* of the parent type (all anonymous types share the key) mistypes: two anonymous types
   a, b each declaring a child v, of types 1 and 2: the second v gets the type of the first *)
Theorem C20_cache_by_name_refuted : exists T e,
  coherent (models T) /\ fst (walk_by_name (fun _ => 0) (decls_of (Some T)) e []) <> spec_elem (option_map snd (decls_of (Some T))) e.
Proof.
  (* pseudo content model 0 of the global declarations: r (5) with anonymous children a (10) and b (20), each declaring v (30) *)
  exists (TComplex 0 [(5, TComplex 1 [(10, TComplex 2 [(30, TSimple 1)]); (20, TComplex 3 [(30, TSimple 2)])])]),
         (Elem 5 [Elem 10 [Elem 30 []]; Elem 20 [Elem 30 []]]).
  split.
  - intros g d1 d2 H1 H2. cbn in H1, H2. intuition congruence.
  - vm_compute. discriminate.
Qed.
Print Assumptions C20_cache_by_name_refuted.

Example C20_nonvacuous :
  let T := TComplex 0 [(5, TComplex 1 [(10, TComplex 2 [(30, TSimple 1)]); (20, TComplex 3 [(30, TSimple 2)])])] in
  let e := Elem 5 [Elem 10 [Elem 30 []]; Elem 20 [Elem 30 []; Elem 99 [Elem 30 []]]] in
  coherent (models T) /\ cache_ok (models T) [] /\ parent_ok (models T) (decls_of (Some T)) /\
  fst (walk (decls_of (Some T)) e []) =
    TElem 5 (Some (TComplex 1 [(10, TComplex 2 [(30, TSimple 1)]); (20, TComplex 3 [(30, TSimple 2)])]))
      [TElem 10 (Some (TComplex 2 [(30, TSimple 1)])) [TElem 30 (Some (TSimple 1)) []];
       TElem 20 (Some (TComplex 3 [(30, TSimple 2)])) [TElem 30 (Some (TSimple 2)) []; TElem 99 None [TElem 30 None []]]].
Proof.
  cbn zeta. split; [intros g d1 d2 H1 H2; cbn in H1, H2; intuition congruence|]. split; [intros g n v H; discriminate|].
  split; [cbn; auto|]. vm_compute. reflexivity.
Qed.

(* the statements of /repo that the hand model mirrors are present in the source as read on this run (T-data,
   harness/shape.py -> Gen/C20Shape.v) *)
Theorem C20_source_shape : Gen.C20Shape.shape_ok = true.
Proof. reflexivity. Qed.
Print Assumptions C20_source_shape.
