(* C20 — schema-aware evaluation: the typing walk of EtreeElementNode.apply_schema (instance and content models walked
   in lockstep, with a cache of element matches per content model) against the declarative typing "the type of an
   element is the one its parent's content model declares for its name". *)
From Coq Require Import List Bool Arith Lia.
Import ListNotations.

(* schema: a type is a simple type (by number) or a complex type with a content model (identity gid = id(model_group),
   declarations name -> type). xsd_types of the code are shared objects: two occurrences with the same gid are the
   same content model. *)
Inductive xtype :=
| TSimple (k : nat)
| TComplex (gid : nat) (decls : list (nat * xtype)).
(* instance elements *)
Inductive inst := Elem (name : nat) (children : list inst).
(* typed tree: the xsd_type assigned to each element (None = clear_types) *)
Inductive typed := TElem (name : nat) (ty : option xtype) (children : list typed).

Fixpoint lookup (n : nat) (l : list (nat * xtype)) : option xtype :=
  match l with [] => None | (m, t) :: r => if Nat.eqb m n then Some t else lookup n r end.
Definition decls_of (t : option xtype) : option (nat * list (nat * xtype)) :=
  match t with Some (TComplex g d) => Some (g, d) | _ => None end.

(* ---- specification: declarative typing ---- *)
Fixpoint cleared (e : inst) : typed :=
  match e with Elem n cs => TElem n None (map cleared cs) end.
Fixpoint spec_elem (parent : option (list (nat * xtype))) (e : inst) : typed :=
  match e with
  | Elem n cs =>
      match match parent with Some d => lookup n d | None => None end with
      | None => TElem n None (map cleared cs)           (* no declaration: the subtree is untyped *)
      | Some t => TElem n (Some t) (map (spec_elem (match t with TComplex _ d => Some d | TSimple _ => None end)) cs)
      end
  end.

(* ---- implementation: element_match_cache[id(content)][name] ---- *)
Definition cache := list ((nat * nat) * option xtype).
Fixpoint cget (g n : nat) (c : cache) : option (option xtype) :=
  match c with
  | [] => None
  | ((g', n'), v) :: r => if Nat.eqb g' g && Nat.eqb n' n then Some v else cget g n r
  end.
(* find the declaration of a name in the content model of the parent type, through the cache *)
Definition find (keyf : nat -> nat) (c : cache) (g : nat) (d : list (nat * xtype)) (n : nat) : option xtype * cache :=
  match cget (keyf g) n c with
  | Some v => (v, c)
  | None => match lookup n d with
            | Some t => (Some t, ((keyf g, n), Some t) :: c)      (* only successful matches are cached *)
            | None => (None, c)
            end
  end.
(* run a list of walkers (one per child, in document order), threading the cache *)
Fixpoint walk_list (ws : list (cache -> typed * cache)) (c : cache) : list typed * cache :=
  match ws with
  | [] => ([], c)
  | w :: r => let '(tx, c') := w c in let '(tr, c'') := walk_list r c' in (tx :: tr, c'')
  end.
Fixpoint walk_elem (keyf : nat -> nat) (parent : option (nat * list (nat * xtype))) (e : inst) {struct e} : cache -> typed * cache :=
  match e with
  | Elem n cs => fun c =>
      let '(ty, c1) := match parent with Some (g, d) => find keyf c g d n | None => (None, c) end in
      match ty with
      | None => (TElem n None (map cleared cs), c1)
      | Some t =>
          let '(tcs, c2) := walk_list (map (fun x => walk_elem keyf (decls_of (Some t)) x) cs) c1 in
          (TElem n (Some t) tcs, c2)
      end
  end.
(* the code: the cache key is id(content) *)
Definition walk := walk_elem (fun g => g).
(* a cache keyed by the name of the parent type: all anonymous types (name None) share one key *)
Definition walk_by_name (name_of : nat -> nat) := walk_elem name_of.

(* well-formed schemas: one content model per gid *)
Fixpoint models (t : xtype) : list (nat * list (nat * xtype)) :=
  match t with
  | TSimple _ => []
  | TComplex g d => (g, d) :: flat_map (fun p => models (snd p)) d
  end.
Definition coherent (ms : list (nat * list (nat * xtype))) : Prop :=
  forall g d1 d2, In (g, d1) ms -> In (g, d2) ms -> d1 = d2.
(* a cache that only holds true facts about the content models *)
Definition cache_ok (ms : list (nat * list (nat * xtype))) (c : cache) : Prop :=
  forall g n v, cget g n c = Some v -> exists d, In (g, d) ms /\ lookup n d = v /\ v <> None.

Fixpoint erase (t : typed) : inst := match t with TElem n _ cs => Elem n (map erase cs) end.
