From Coq Require Import List Bool Arith Lia.
From EP Require Import C20.Model.
Import ListNotations.

Lemma inst_ind2 : forall (P : inst -> Prop), (forall n cs, Forall P cs -> P (Elem n cs)) -> forall e, P e.
Proof.
  intros P H. fix IH 1. intros [n cs]. apply H.
  exact ((fix F (l : list inst) : Forall P l := match l with [] => Forall_nil P | x :: r => Forall_cons x (IH x) (F r) end) cs).
Qed.

Definition closed (ms : list (nat * list (nat * xtype))) : Prop :=
  forall g d, In (g, d) ms -> forall n t, lookup n d = Some t -> incl (models t) ms.

Lemma cget_cons : forall g n k v c, cget g n ((k, v) :: c) = if Nat.eqb (fst k) g && Nat.eqb (snd k) n then Some v else cget g n c.
Proof. intros g n [g' n'] v c. reflexivity. Qed.

(* find through the cache = plain lookup in the content model, and the cache stays truthful *)
Lemma find_ok : forall ms c g d n, coherent ms -> cache_ok ms c -> In (g, d) ms ->
  fst (find (fun g => g) c g d n) = lookup n d /\ cache_ok ms (snd (find (fun g => g) c g d n)).
Proof.
  intros ms c g d n Co Hc Hin. unfold find. destruct (cget g n c) as [v|] eqn:E.
  - cbn. split; [|exact Hc]. destruct (Hc g n v E) as (d' & Hd' & L & _). rewrite (Co g d d' Hin Hd'). symmetry. exact L.
  - destruct (lookup n d) as [t|] eqn:L; cbn; split; auto.
    intros g0 n0 v0 H. rewrite cget_cons in H. cbn [fst snd] in H.
    destruct (Nat.eqb g g0 && Nat.eqb n n0) eqn:K.
    + apply andb_true_iff in K. destruct K as (K1 & K2). apply Nat.eqb_eq in K1. apply Nat.eqb_eq in K2. subst.
      injection H as <-. exists d. repeat split; auto. discriminate.
    + apply Hc. exact H.
Qed.

Lemma spec_none : forall e, spec_elem None e = cleared e.
Proof. intros [n cs]. reflexivity. Qed.

Definition parent_ok (ms : list (nat * list (nat * xtype))) (p : option (nat * list (nat * xtype))) : Prop :=
  match p with Some (g, d) => In (g, d) ms | None => True end.

Lemma walk_ok : forall ms, coherent ms -> closed ms -> forall e p c, cache_ok ms c -> parent_ok ms p ->
  fst (walk p e c) = spec_elem (option_map snd p) e /\ cache_ok ms (snd (walk p e c)).
Proof.
  intros ms Co Cl. induction e as [n cs IHcs] using inst_ind2. intros p c Hc Hp. unfold walk in *. cbn [walk_elem].
  destruct p as [[g d]|]; cbn [option_map snd spec_elem].
  - destruct (find_ok ms c g d n Co Hc Hp) as (F1 & F2).
    destruct (find (fun g0 => g0) c g d n) as [ty c1]. cbn [fst snd] in F1, F2. subst ty.
    destruct (lookup n d) as [t|] eqn:L; [|cbn; auto].
    (* children *)
    set (pd := decls_of (Some t)).
    assert (Hpd : parent_ok ms pd).
    { unfold pd. destruct t as [k|g' d']; cbn; auto. apply (Cl g d Hp n (TComplex g' d') L). cbn. left. reflexivity. }
    assert (Hsp : option_map snd pd = match t with TComplex _ d0 => Some d0 | TSimple _ => None end) by (unfold pd; destruct t; reflexivity).
    assert (Ch : forall c0, cache_ok ms c0 ->
             fst (walk_list (map (fun x => walk_elem (fun g0 => g0) pd x) cs) c0) = map (spec_elem (option_map snd pd)) cs /\
             cache_ok ms (snd (walk_list (map (fun x => walk_elem (fun g0 => g0) pd x) cs) c0))).
    { clear L Hc F2. induction IHcs as [|x r Hx Hr IHr]; intros c0 Hc0; [cbn; auto|].
      destruct (Hx pd c0 Hc0 Hpd) as (X1 & X2). cbn [walk_list map].
      destruct (walk_elem (fun g0 => g0) pd x c0) as [tx c'] eqn:Ex. cbn [fst snd] in X1, X2.
      destruct (IHr c' X2) as (R1 & R2).
      destruct (walk_list (map (fun x0 => walk_elem (fun g0 => g0) pd x0) r) c') as [tr c''] eqn:Er.
      cbn [fst snd] in *. subst. auto. }
    destruct (Ch c1 F2) as (C1 & C2). fold pd.
    destruct (walk_list (map (fun x => walk_elem (fun g0 => g0) pd x) cs) c1) as [tcs c2] eqn:Ec.
    cbn [fst snd] in *. subst tcs. rewrite Hsp. auto.
  - cbn. auto.
Qed.

Lemma erase_cleared : forall e, erase (cleared e) = e.
Proof.
  induction e as [n cs IH] using inst_ind2. cbn. f_equal. rewrite map_map.
  induction IH as [|x r Hx Hr IHr]; cbn; auto. rewrite Hx, IHr. reflexivity.
Qed.
Lemma erase_spec : forall e p, erase (spec_elem p e) = e.
Proof.
  induction e as [n cs IH] using inst_ind2. intros p. cbn [spec_elem].
  destruct (match p with Some d => lookup n d | None => None end) as [t|]; cbn [erase]; f_equal; rewrite map_map.
  - induction IH as [|x r Hx Hr IHr]; cbn; auto. rewrite Hx, IHr. reflexivity.
  - induction cs as [|x r IHr]; cbn; auto. rewrite erase_cleared. f_equal. inversion IH; subst. apply IHr. assumption.
Qed.

Lemma xtype_ind2 : forall (P : xtype -> Prop), (forall k, P (TSimple k)) ->
  (forall g d, Forall (fun p : nat * xtype => P (snd p)) d -> P (TComplex g d)) -> forall t, P t.
Proof.
  intros P H1 H2. fix IH 1. intros [k|g d]; [apply H1|]. apply H2.
  exact ((fix F (l : list (nat * xtype)) : Forall (fun p => P (snd p)) l :=
            match l with [] => Forall_nil _ | x :: r => Forall_cons x (IH (snd x)) (F r) end) d).
Qed.
Lemma lookup_in : forall n d t, lookup n d = Some t -> exists m, In (m, t) d.
Proof.
  induction d as [|[m u] r IH]; intros t H; cbn in H; [discriminate|].
  destruct (Nat.eqb m n); [injection H as ->; exists m; left; reflexivity|]. destruct (IH t H) as (m' & Hm). exists m'. right. exact Hm.
Qed.
Lemma models_closed : forall T, closed (models T).
Proof.
  induction T as [k|g0 d0 IH] using xtype_ind2; intros g d Hin n t L; cbn in Hin; [contradiction|].
  destruct Hin as [E|Hin].
  - injection E as <- <-. destruct (lookup_in n d0 t L) as (m & Hm). intros x Hx. cbn. right.
    apply in_flat_map. exists (m, t). split; [exact Hm|exact Hx].
  - apply in_flat_map in Hin. destruct Hin as (p & Hp & Hin). rewrite Forall_forall in IH.
    intros x Hx. cbn. right. apply in_flat_map. exists p. split; [exact Hp|]. exact (IH p Hp g d Hin n t L x Hx).
Qed.
