From Coq Require Import List Bool Arith.
From EP Require Import C20.Model.
Import ListNotations.
(* flat rendering of a typed tree in document order: per element the simple type number + 1, 0 for a complex type
   identified by gid as 1000 + gid, and 999999 for None *)
Fixpoint flat (t : typed) : list nat :=
  match t with
  | TElem n ty cs => (match ty with None => 999999 | Some (TSimple k) => S k | Some (TComplex g _) => 1000 + g end) :: flat_map flat cs
  end.
(* (walk with the id-keyed cache, declarative typing) from the pseudo content model of the global declarations *)
Definition run (T : xtype) (e : inst) : list nat * list nat :=
  (flat (fst (walk (decls_of (Some T)) e [])), flat (spec_elem (option_map snd (decls_of (Some T))) e)).
