From Coq Require Import List Bool Arith.
From EP Require Import Gen.C18Types C18.Model.
Import ListNotations.
Definition occ_of (n : nat) : occ := match n with 0 => Zero | 1 => One | 2 => Opt | 3 => Plus | _ => Star end.
Definition ity (n : nat) : itype := if Nat.eqb n 99 then IAny else IAtomic n.
Definition b2n (b : bool) : nat := if b then 1 else 0.
(* value v (item type indexes) against (occurrence, item type): spec matching *)
Definition run_match (v : list nat) (o t : nat) : nat := b2n (matches type_sub v (occ_of o, ity t)).
(* is_sequence_type_restriction(st1, st2): (code model, spec subtype st2 <= st1) *)
Definition run_restr (o1 t1 o2 t2 : nat) : nat * nat :=
  (b2n (st_restr_impl code_sub (occ_of o1, ity t1) (occ_of o2, ity t2)), b2n (st_sub type_sub (occ_of o2, ity t2) (occ_of o1, ity t1))).
