(* C18 - the function conversion rules (XPath 3.1 section 3.1.5.2) for a parameter of an atomic type, as a total function on
   argument items; the oracle of the conversion sweep of the harness (section 4c): a call of a built-in function is the function
   applied to the converted arguments, hence f(node) = f(untyped string value) and f(untyped s) = f(T(s)).
   Types are numbered; the casting function of untypedAtomic and the subtype relation are parameters of the section (C10 and the
   issubclass matrix of C18/Model.v). The laws are immediate from the definitions and kept beside them. *)
From Coq Require Import ZArith List Bool.
Import ListNotations.

Section Conversion.
Variable ty : Type.
Variable ty_eqb : ty -> ty -> bool.
Variable subtype : ty -> ty -> bool.             (* derives-from, reflexive *)
Variable cast_untyped : ty -> Z -> option Z.     (* the cast of an untypedAtomic with content s to a type: the value or FORG0001 *)
Variable t_numeric t_double t_float t_decimal t_string t_anyURI : ty.

Inductive atom := Untyped (s : Z) | Typed (t : ty) (v : Z).
(* an argument item: an atomic value or a node with its typed value (None: no schema type, the typed value is the untypedAtomic
   string value) *)
Inductive item := IAtom (a : atom) | INode (string_value : Z) (typed : option (list atom)).
Inductive result := Ok (l : list atom) | Err (code : nat).   (* 1 FORG0001, 4 XPTY0004 *)

(* 1. atomization *)
Definition atomize (i : item) : list atom :=
  match i with
  | IAtom a => [a]
  | INode sv None => [Untyped sv]
  | INode _ (Some l) => l
  end.
(* 2. an untypedAtomic item is cast to the expected type, to xs:double when the expected type is xs:numeric *)
Definition target (expected : ty) : ty := if ty_eqb expected t_numeric then t_double else expected.
(* 3. numeric and URI promotion *)
Definition promotable (t expected : ty) : bool :=
  (subtype t t_decimal && (ty_eqb expected t_float || ty_eqb expected t_double)) ||
  (subtype t t_float && ty_eqb expected t_double) || (subtype t t_anyURI && ty_eqb expected t_string).
Definition convert_atom (expected : ty) (a : atom) : result :=
  match a with
  | Untyped s => match cast_untyped (target expected) s with Some v => Ok [Typed (target expected) v] | None => Err 1 end
  | Typed t v => if subtype t expected then Ok [Typed t v]
                 else if promotable t expected then Ok [Typed expected v]
                 else Err 4
  end.
Fixpoint convert_atoms (expected : ty) (l : list atom) : result :=
  match l with
  | [] => Ok []
  | a :: r => match convert_atom expected a with
              | Err c => Err c
              | Ok x => match convert_atoms expected r with Err c => Err c | Ok y => Ok (x ++ y) end
              end
  end.
Definition convert (expected : ty) (i : item) : result := convert_atoms expected (atomize i).
(* a built-in function with one atomic parameter: its body applied to the converted argument *)
Definition call (expected : ty) (body : list atom -> result) (i : item) : result :=
  match convert expected i with Ok l => body l | Err c => Err c end.

(* ---- the laws ---- *)
Lemma atomization_equivalence : forall expected sv, convert expected (INode sv None) = convert expected (IAtom (Untyped sv)).
Proof. reflexivity. Qed.
Lemma call_atomization : forall expected body sv, call expected body (INode sv None) = call expected body (IAtom (Untyped sv)).
Proof. reflexivity. Qed.
Lemma typed_node_equivalence : forall expected body sv l, call expected body (INode sv (Some l)) = match convert_atoms expected l with Ok x => body x | Err c => Err c end.
Proof. reflexivity. Qed.
Lemma untyped_is_cast : forall expected s,
  convert expected (IAtom (Untyped s)) =
  match cast_untyped (target expected) s with Some v => Ok [Typed (target expected) v] | None => Err 1 end.
Proof. intros. unfold convert. cbn. destruct (cast_untyped (target expected) s); reflexivity. Qed.
Hypothesis subtype_refl : forall t, subtype t t = true.
Hypothesis double_is_numeric : subtype t_double t_numeric = true.
Hypothesis ty_eqb_spec : forall a b, ty_eqb a b = true -> a = b.
(* f(untyped s) = f(T(s)): the cast value is accepted unchanged *)
Lemma untyped_promotion : forall expected body s v, cast_untyped (target expected) s = Some v ->
  call expected body (IAtom (Untyped s)) = call expected body (IAtom (Typed (target expected) v)).
Proof.
  intros expected body s v H. unfold call, convert. cbn. rewrite H.
  assert (S : subtype (target expected) expected = true).
  { unfold target. destruct (ty_eqb expected t_numeric) eqn:E; [|apply subtype_refl].
    apply ty_eqb_spec in E. rewrite E. exact double_is_numeric. }
  rewrite S. reflexivity.
Qed.
End Conversion.
