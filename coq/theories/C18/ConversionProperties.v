(* C18 property theorems on the function conversion rules (statements; proofs in Conversion.v). *)
From Coq Require Import ZArith List Bool Arith.
From EP Require Import C18.Conversion.
Import ListNotations.

(* a node without schema type is converted exactly as the untypedAtomic value of its string value, for every expected type, every
   casting function and every body of the called function *)
Theorem C18_conversion_atomizes_nodes : forall ty ty_eqb subtype cast t_numeric t_double t_float t_decimal t_string t_anyURI expected body sv,
  call ty ty_eqb subtype cast t_numeric t_double t_float t_decimal t_string t_anyURI expected body (INode ty sv None) =
  call ty ty_eqb subtype cast t_numeric t_double t_float t_decimal t_string t_anyURI expected body (IAtom ty (Untyped ty sv)).
Proof. intros. apply call_atomization. Qed.
Print Assumptions C18_conversion_atomizes_nodes.

(* an untypedAtomic argument is the argument cast to the expected type (xs:double for xs:numeric): the call gives what the call
   with the cast value gives, and FORG0001 when the cast fails *)
Theorem C18_conversion_casts_untyped : forall ty ty_eqb subtype cast t_numeric t_double t_float t_decimal t_string t_anyURI,
  (forall t, subtype t t = true) -> subtype t_double t_numeric = true -> (forall a b, ty_eqb a b = true -> a = b) ->
  forall expected body s,
  let tg := target ty ty_eqb t_numeric t_double expected in
  match cast tg s with
  | Some v => call ty ty_eqb subtype cast t_numeric t_double t_float t_decimal t_string t_anyURI expected body (IAtom ty (Untyped ty s)) =
              call ty ty_eqb subtype cast t_numeric t_double t_float t_decimal t_string t_anyURI expected body (IAtom ty (Typed ty tg v))
  | None => call ty ty_eqb subtype cast t_numeric t_double t_float t_decimal t_string t_anyURI expected body (IAtom ty (Untyped ty s)) = Err ty 1
  end.
Proof.
  intros ty ty_eqb subtype cast t_numeric t_double t_float t_decimal t_string t_anyURI R D E expected body s tg.
  destruct (cast tg s) as [v|] eqn:C.
  - apply untyped_promotion; assumption.
  - unfold call. rewrite untyped_is_cast. fold tg. rewrite C. reflexivity.
Qed.
Print Assumptions C18_conversion_casts_untyped.

(* non-vacuity: types numbered 0 numeric, 1 double, 2 float, 3 decimal, 4 string, 5 anyURI, 6 integer; the hypotheses hold and
   abs(<n>42</n>) = abs(xs:untypedAtomic('42')) = abs(xs:double('42')) *)
Definition sub6 (a b : nat) : bool :=
  Nat.eqb a b || (Nat.eqb b 0 && (Nat.eqb a 1 || Nat.eqb a 2 || Nat.eqb a 3 || Nat.eqb a 6)) || (Nat.eqb a 6 && Nat.eqb b 3).
Example C18_conversion_nonvacuous :
  (forall t, sub6 t t = true) /\ sub6 1 0 = true /\ (forall a b, Nat.eqb a b = true -> a = b) /\
  let cast := fun (t : nat) (s : Z) => if Nat.eqb t 1 then Some s else None in
  let body := fun l => match l with [Typed _ t v] => Ok nat [Typed nat t (Z.abs v)] | _ => Err nat 4 end in
  call nat Nat.eqb sub6 cast 0 1 2 3 4 5 0 body (INode nat (-42) None) = Ok nat [Typed nat 1 42] /\
  call nat Nat.eqb sub6 cast 0 1 2 3 4 5 0 body (IAtom nat (Typed nat 4 7)) = Err nat 4.
Proof.
  split; [intros t; unfold sub6; rewrite Nat.eqb_refl; reflexivity|]. split; [reflexivity|].
  split; [intros a b H; apply Nat.eqb_eq; exact H|]. split; reflexivity.
Qed.
