(* C18 property theorems (statements only; proofs are `exact`/short compositions of Proofs.v lemmas). *)
From Coq Require Import List Bool Arith Lia.
From EP Require Import Gen.C18Types C18.Model C18.Proofs.
From EP Require Gen.C18Shape.
Import ListNotations.

(* the atomic type hierarchy the code uses (issubclass between the registered classes, after the name-equality test)
   is the derivation hierarchy of XSD part 2 / XDM, for all 46 x 46 pairs of built-in atomic types *)
Theorem C18_atomic_hierarchy : forall a b, a < ntypes -> b < ntypes -> code_sub a b = type_sub a b.
Proof. exact code_sub_is_type_sub. Qed.
Print Assumptions C18_atomic_hierarchy.

(* occurrence indicators denote cardinalities; the subtype relation on them is inclusion of the cardinality sets *)
Theorem C18_occurrence : forall o2 o1, occ_sub o2 o1 = true <-> (forall n, card o2 n = true -> card o1 n = true).
Proof. exact card_sub. Qed.
Print Assumptions C18_occurrence.

(* the subtype relation is reflexive, transitive and sound for matching: all values, all sequence types over the
   built-in atomic types and item() *)
Theorem C18_subtype_sound : forall v s t, Forall (fun a => a < ntypes) v -> wf_st s -> wf_st t ->
  st_sub type_sub s s = true /\
  (forall u, wf_st u -> st_sub type_sub s t = true -> st_sub type_sub t u = true -> st_sub type_sub s u = true) /\
  (matches type_sub v s = true -> st_sub type_sub s t = true -> matches type_sub v t = true).
Proof.
  intros v s t Hv Ws Wt. split; [apply st_sub_refl; exact Ws|]. split.
  - intros u Wu H1 H2. apply (st_sub_trans s t u); auto.
  - intros M S. apply (st_sub_sound v s t); auto.
Qed.
Print Assumptions C18_subtype_sound.

(* treat as returns its operand unchanged exactly when instance of holds, else XPDY0050 *)
Theorem C18_treat_as : forall sub v s,
  (instance_of sub v s = true -> treat_as sub v s = Returned v) /\ (instance_of sub v s = false -> treat_as sub v s = XPDY0050).
Proof. intros sub v s. unfold treat_as, instance_of. destruct (matches sub v s); split; intros H; congruence. Qed.
Print Assumptions C18_treat_as.

(* is_sequence_type_restriction (after the fix): sound - whatever it accepts is a subtype. FULL STATEMENT would be
   equality with st_sub; it is not complete: T* does not accept T? and T+ (pinned by tests/test_sequence_types.py). *)
Theorem C18_restriction_sound_partial : forall s1 s2, st_restr_impl type_sub s1 s2 = true -> st_sub type_sub s2 s1 = true.
Proof. exact st_restr_impl_sound. Qed.
Print Assumptions C18_restriction_sound_partial.
Theorem C18_restriction_incomplete_refuted : exists s1 s2, st_sub type_sub s2 s1 = true /\ st_restr_impl type_sub s1 s2 = false.
Proof. exists (Star, IAtomic 14), (Opt, IAtomic 18). vm_compute. split; reflexivity. Qed.
Print Assumptions C18_restriction_incomplete_refuted.
(* before the fix it was unsound: xs:int? accepted as a restriction of xs:integer, and () matches the first only *)
Theorem C18_restriction_old_unsound : exists s1 s2 v,
  occ_restr_old (fst s1) (fst s2) = true /\ matches type_sub v s2 = true /\ matches type_sub v s1 = false.
Proof. exists (One, IAtomic 14), (Opt, IAtomic 18), []. vm_compute. repeat split; reflexivity. Qed.
Print Assumptions C18_restriction_old_unsound.

Example C18_nonvacuous :
  matches type_sub [18; 20] (Plus, IAtomic 13) = true /\ matches type_sub [18; 2] (Plus, IAtomic 13) = false /\
  matches type_sub [] (Plus, IAny) = false /\ matches type_sub [] (Zero, IAtomic 0) = true /\
  st_sub type_sub (One, IAtomic 20) (Star, IAtomic 13) = true /\ st_sub type_sub (Opt, IAtomic 20) (One, IAtomic 13) = false.
Proof. vm_compute. repeat split; reflexivity. Qed.

(* the statements of /repo that the hand model mirrors are present in the source as read on this run (T-data,
   harness/shape.py -> Gen/C18Shape.v) *)
Theorem C18_source_shape : Gen.C18Shape.shape_ok = true.
Proof. reflexivity. Qed.
Print Assumptions C18_source_shape.
