(* C18 — sequence types over atomic items: occurrence indicators, the atomic type hierarchy (XSD part 2 derivation
   table vs the issubclass matrix dumped from the code), matching, the subtype relation of function tests, and the
   occurrence logic of is_sequence_type_restriction as written in the code. *)
From Coq Require Import List Bool Arith Lia.
From EP Require Import Gen.C18Types.
Import ListNotations.

Definition ntypes : nat := 46.
(* derivation (base type) of each built-in atomic type, XSD 1.1 part 2 + XDM; index order of Gen/C18Types.v;
   anyAtomicType (0) is the root *)
Definition parent : list nat :=
  [0; 0; 0; 2; 3; 4; 4; 4; 7; 8; 8; 8;          (* anyAtomicType untypedAtomic string normalizedString token language NMTOKEN Name NCName ID IDREF ENTITY *)
   0; 0; 13; 14; 15; 14; 17; 18; 19; 14; 21; 22; 23; 24; 21;   (* boolean decimal integer nonPositiveInteger negativeInteger long int short byte nonNegativeInteger unsignedLong unsignedInt unsignedShort unsignedByte positiveInteger *)
   0; 0; 0; 29; 29;                              (* float double duration yearMonthDuration dayTimeDuration *)
   0; 32; 0; 0; 0; 0; 0; 0; 0;                   (* dateTime dateTimeStamp date time gYear gYearMonth gMonth gMonthDay gDay *)
   0; 0; 0; 0; 0].                               (* hexBinary base64Binary anyURI QName NOTATION *)
Fixpoint derives (fuel a b : nat) : bool :=
  Nat.eqb a b || match fuel with O => false | S f => let p := nth a parent 0 in negb (Nat.eqb p a) && derives f p b end.
Definition type_sub (a b : nat) : bool := derives 12 a b.
Definition spec_matrix : list (list bool) := map (fun a => map (fun b => type_sub a b) (seq 0 ntypes)) (seq 0 ntypes).
(* is_sequence_type_restriction: "if st1 == st2: return True" comes before the issubclass test (the proxy classes of
   string / boolean / decimal / double are not subclasses of themselves through their __subclasshook__) *)
Definition code_sub (a b : nat) : bool := Nat.eqb a b || nth b (nth a sub_matrix []) false.

(* occurrence indicators; Zero is empty-sequence() *)
Inductive occ := Zero | One | Opt | Plus | Star.
Definition card (o : occ) (n : nat) : bool :=
  match o with Zero => Nat.eqb n 0 | One => Nat.eqb n 1 | Opt => Nat.leb n 1 | Plus => Nat.leb 1 n | Star => true end.
Definition occ_sub (o2 o1 : occ) : bool :=
  match o2, o1 with
  | Zero, (Zero | Opt | Star) => true
  | One, (One | Opt | Plus | Star) => true
  | Opt, (Opt | Star) => true
  | Plus, (Plus | Star) => true
  | Star, Star => true
  | _, _ => false
  end.
(* the occurrence part of is_sequence_type_restriction(st1, st2) ("st2 is a restriction of st1") as in the code *)
Definition occ_restr_impl (o1 o2 : occ) : bool :=
  match o2, o1 with
  | Zero, (Zero | Opt | Star) => true
  | Zero, _ => false
  | _, Zero => false
  | One, _ => true
  | Opt, Opt => true
  | Plus, Plus => true
  | Star, Star => true
  | _, _ => false                      (* incl. Star <- Opt and Star <- Plus, rejected by the code *)
  end.
(* before the fix: "elif st2[-1] == '?': st2 = st2[:-1]" accepted One <- Opt *)
Definition occ_restr_old (o1 o2 : occ) : bool :=
  match o1, o2 with One, Opt => true | _, _ => occ_restr_impl o1 o2 end.

(* item types: item() or an atomic type *)
Inductive itype := IAny | IAtomic (t : nat).
Definition item_sub (sub : nat -> nat -> bool) (i2 i1 : itype) : bool :=
  match i1, i2 with IAny, _ => true | IAtomic _, IAny => false | IAtomic b, IAtomic a => sub a b end.
Definition stype := (occ * itype)%type.
(* a value: the (most specific) atomic types of its items *)
Definition matches (sub : nat -> nat -> bool) (v : list nat) (s : stype) : bool :=
  card (fst s) (length v) && forallb (fun a => item_sub sub (IAtomic a) (snd s)) v.
Definition st_sub (sub : nat -> nat -> bool) (s2 s1 : stype) : bool :=
  occ_sub (fst s2) (fst s1) && (match fst s2 with Zero => true | _ => item_sub sub (snd s2) (snd s1) end).
Definition st_restr_impl (sub : nat -> nat -> bool) (s1 s2 : stype) : bool :=
  occ_restr_impl (fst s1) (fst s2) && (match fst s2 with Zero => true | _ => item_sub sub (snd s2) (snd s1) end).
(* instance of / treat as *)
Definition instance_of := matches.
Inductive treat_result := Returned (v : list nat) | XPDY0050.
Definition treat_as (sub : nat -> nat -> bool) (v : list nat) (s : stype) : treat_result :=
  if matches sub v s then Returned v else XPDY0050.
