From Coq Require Import List Bool Arith Lia.
From EP Require Import Gen.C18Types C18.Model.
Import ListNotations.

Lemma matrix_is_xsd : forallb (fun a => forallb (fun b => Bool.eqb (code_sub a b) (type_sub a b)) (seq 0 ntypes)) (seq 0 ntypes) = true.
Proof. vm_compute. reflexivity. Qed.
Lemma code_sub_is_type_sub : forall a b, a < ntypes -> b < ntypes -> code_sub a b = type_sub a b.
Proof.
  intros a b Ha Hb. assert (X := matrix_is_xsd). rewrite forallb_forall in X.
  assert (Ia : In a (seq 0 ntypes)) by (apply in_seq; unfold ntypes in *; lia).
  assert (Ib : In b (seq 0 ntypes)) by (apply in_seq; unfold ntypes in *; lia).
  specialize (X a Ia). rewrite forallb_forall in X. specialize (X b Ib). apply eqb_prop. exact X.
Qed.

Lemma card_sub : forall o2 o1, occ_sub o2 o1 = true <-> (forall n, card o2 n = true -> card o1 n = true).
Proof.
  intros o2 o1. split.
  - intros H n C. destruct o2, o1; try discriminate; try reflexivity; unfold card in *;
      try (apply Nat.eqb_eq in C); try (apply Nat.leb_le in C); try (apply Nat.eqb_eq); try (apply Nat.leb_le); lia.
  - intros H. destruct o2, o1; try reflexivity; exfalso.
    all: try (specialize (H 0); cbn in H; specialize (H eq_refl); discriminate).
    all: try (specialize (H 1); cbn in H; specialize (H eq_refl); discriminate).
    all: try (specialize (H 2); cbn in H; specialize (H eq_refl); discriminate).
Qed.

(* the hierarchy, as a finite relation on the type indexes: reflexive and transitive *)
Definition idx : list nat := seq 0 ntypes.
Lemma type_sub_refl_b : forallb (fun a => type_sub a a) idx = true.
Proof. vm_compute. reflexivity. Qed.
Lemma type_sub_trans_b :
  forallb (fun a => forallb (fun b => forallb (fun c => negb (type_sub a b && type_sub b c) || type_sub a c) idx) idx) idx = true.
Proof. vm_compute. reflexivity. Qed.
Lemma in_idx : forall a, a < ntypes -> In a idx.
Proof. intros a H. apply in_seq. unfold ntypes in *. lia. Qed.
Lemma type_sub_refl : forall a, a < ntypes -> type_sub a a = true.
Proof. intros a H. assert (X := type_sub_refl_b). rewrite forallb_forall in X. apply X. apply in_idx. exact H. Qed.
Lemma type_sub_trans : forall a b c, a < ntypes -> b < ntypes -> c < ntypes ->
  type_sub a b = true -> type_sub b c = true -> type_sub a c = true.
Proof.
  intros a b c Ha Hb Hc H1 H2. assert (X := type_sub_trans_b). rewrite forallb_forall in X.
  specialize (X a (in_idx a Ha)). rewrite forallb_forall in X. specialize (X b (in_idx b Hb)).
  rewrite forallb_forall in X. specialize (X c (in_idx c Hc)). rewrite H1, H2 in X. cbn in X. exact X.
Qed.

Definition wf_item (i : itype) : Prop := match i with IAny => True | IAtomic t => t < ntypes end.
Definition wf_st (s : stype) : Prop := wf_item (snd s).

Lemma item_sub_refl : forall i, wf_item i -> item_sub type_sub i i = true.
Proof. intros [|t] H; cbn; auto. apply type_sub_refl. exact H. Qed.
Lemma item_sub_trans : forall i j k, wf_item i -> wf_item j -> wf_item k ->
  item_sub type_sub i j = true -> item_sub type_sub j k = true -> item_sub type_sub i k = true.
Proof.
  intros [|a] [|b] [|c] Hi Hj Hk H1 H2; cbn in *; auto; try discriminate. apply (type_sub_trans a b c); auto.
Qed.
Lemma occ_sub_refl : forall o, occ_sub o o = true.
Proof. destruct o; reflexivity. Qed.
Lemma occ_sub_trans : forall a b c, occ_sub a b = true -> occ_sub b c = true -> occ_sub a c = true.
Proof. intros a b c H1 H2. destruct a, b, c; try discriminate; reflexivity. Qed.

Lemma st_sub_refl : forall s, wf_st s -> st_sub type_sub s s = true.
Proof. intros [o i] H. unfold st_sub. cbn [fst snd]. rewrite occ_sub_refl. destruct o; auto; cbn; apply item_sub_refl; exact H. Qed.
Lemma st_sub_trans : forall s1 s2 s3, wf_st s1 -> wf_st s2 -> wf_st s3 ->
  st_sub type_sub s1 s2 = true -> st_sub type_sub s2 s3 = true -> st_sub type_sub s1 s3 = true.
Proof.
  intros [o1 i1] [o2 i2] [o3 i3] W1 W2 W3 H1 H2. unfold st_sub, wf_st in *. cbn [fst snd] in *.
  apply andb_true_iff in H1. destruct H1 as (O1 & I1). apply andb_true_iff in H2. destruct H2 as (O2 & I2).
  rewrite (occ_sub_trans o1 o2 o3 O1 O2). cbn.
  destruct o1; auto; destruct o2; try discriminate; apply (item_sub_trans i1 i2 i3); auto.
Qed.
Lemma st_sub_sound : forall v s t, Forall (fun a => a < ntypes) v -> wf_st s -> wf_st t ->
  matches type_sub v s = true -> st_sub type_sub s t = true -> matches type_sub v t = true.
Proof.
  intros v [o1 i1] [o2 i2] Hv W1 W2 M S. unfold matches, st_sub, wf_st in *. cbn [fst snd] in *.
  apply andb_true_iff in M. destruct M as (C & F). apply andb_true_iff in S. destruct S as (O & I).
  apply andb_true_iff. split.
  - apply (proj1 (card_sub o1 o2) O). exact C.
  - destruct o1.
    + (* empty-sequence(): the value is empty *) cbn in C. apply Nat.eqb_eq in C. destruct v; [reflexivity|discriminate].
    + rewrite forallb_forall in *. intros a Ha. rewrite Forall_forall in Hv.
      apply (item_sub_trans (IAtomic a) i1 i2); auto. exact (Hv a Ha).
    + rewrite forallb_forall in *. intros a Ha. rewrite Forall_forall in Hv.
      apply (item_sub_trans (IAtomic a) i1 i2); auto. exact (Hv a Ha).
    + rewrite forallb_forall in *. intros a Ha. rewrite Forall_forall in Hv.
      apply (item_sub_trans (IAtomic a) i1 i2); auto. exact (Hv a Ha).
    + rewrite forallb_forall in *. intros a Ha. rewrite Forall_forall in Hv.
      apply (item_sub_trans (IAtomic a) i1 i2); auto. exact (Hv a Ha).
Qed.

(* the occurrence logic of the code is sound (never accepts a non-subtype) but not complete *)
Lemma occ_restr_impl_sound : forall o1 o2, occ_restr_impl o1 o2 = true -> occ_sub o2 o1 = true.
Proof. intros o1 o2. destruct o1, o2; cbn; auto. Qed.
Lemma st_restr_impl_sound : forall s1 s2, st_restr_impl type_sub s1 s2 = true -> st_sub type_sub s2 s1 = true.
Proof.
  intros [o1 i1] [o2 i2] H. unfold st_restr_impl, st_sub in *. cbn [fst snd] in *.
  apply andb_true_iff in H. destruct H as (O & I). rewrite (occ_restr_impl_sound o1 o2 O). exact I.
Qed.
