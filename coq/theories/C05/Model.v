(* C05 — variable scoping of for / let / some / every: the Python implementation (shallow context copies that share
   one mutable variables dict, explicit dict copies at binding constructs, iter_product writing loop variables in
   place) against lexical scoping. Values are sequences of integers; None is an error (unbound variable, XPTY0004). *)
From Coq Require Import ZArith List Bool Arith Lia.
Import ListNotations.
Open Scope Z_scope.

Definition value := list Z.
Definition dict := list (nat * value).
Fixpoint lookup (x : nat) (d : dict) : option value :=
  match d with [] => None | (y, v) :: r => if Nat.eqb y x then Some v else lookup x r end.
(* dict[x] = v ; dictionaries are observed through lookup only *)
Definition bind (x : nat) (v : value) (d : dict) : dict := (x, v) :: d.

Inductive expr :=
| ELit (v : value)
| EVar (x : nat)
| ESeq (a b : expr)                                   (* a , b *)
| EAdd (a b : expr)                                   (* a + b *)
| EFor (x : nat) (r body : expr)                      (* for $x in r return body *)
| EFor2 (x : nat) (r1 : expr) (y : nat) (r2 body : expr)   (* for $x in r1, $y in r2 return body *)
| ELet (x : nat) (v body : expr)                      (* let $x := v return body *)
| ELet2 (x : nat) (v1 : expr) (y : nat) (v2 body : expr)   (* let $x := v1, $y := v2 return body *)
| EQuant (some : bool) (x : nat) (r cond : expr).     (* some / every $x in r satisfies (cond > 0) *)

Definition add_v (a b : value) : option value :=
  match a, b with
  | [], _ => Some []              (* get_operands: first operand empty -> () without looking at the second *)
  | [_], [] => Some []
  | [x], [y] => Some [x + y]
  | _, _ => None                   (* XPTY0004 *)
  end.
Definition truth (c : value) : bool := existsb (fun z => 0 <? z) c.
Definition cat (a b : option value) : option value :=
  match a, b with Some u, Some v => Some (u ++ v) | _, _ => None end.

(* ---------- specification: environment passing, lexical scope by construction ---------- *)
Fixpoint flat_map_opt (f : Z -> option value) (l : list Z) : option value :=
  match l with
  | [] => Some []
  | a :: r => match f a with None => None | Some u => match flat_map_opt f r with None => None | Some v => Some (u ++ v) end end
  end.
Fixpoint quant (some : bool) (f : Z -> option value) (vs : list Z) : option value :=
  match vs with
  | [] => Some [if some then 0 else 1]
  | v :: r => match f v with
              | None => None
              | Some c => if some then (if truth c then Some [1] else quant some f r)
                          else (if truth c then quant some f r else Some [0])
              end
  end.
Fixpoint spec (e : expr) (env : dict) : option value :=
  match e with
  | ELit v => Some v
  | EVar x => lookup x env
  | ESeq a b => match spec a env with None => None | Some u => match spec b env with None => None | Some v => Some (u ++ v) end end
  | EAdd a b => match spec a env with None => None | Some [] => Some []     (* the second operand is not evaluated *)
                | Some u => match spec b env with None => None | Some v => add_v u v end end
  | EFor x r body =>
      match spec r env with None => None | Some vs => flat_map_opt (fun v => spec body (bind x [v] env)) vs end
  | EFor2 x r1 y r2 body =>
      match spec r1 env with
      | None => None
      | Some vs1 => flat_map_opt (fun v1 => match spec r2 (bind x [v1] env) with
                                            | None => None
                                            | Some vs2 => flat_map_opt (fun v2 => spec body (bind y [v2] (bind x [v1] env))) vs2
                                            end) vs1
      end
  | ELet x v body => match spec v env with None => None | Some u => spec body (bind x u env) end
  | ELet2 x v1 y v2 body =>
      match spec v1 env with
      | None => None
      | Some u => match spec v2 (bind x u env) with None => None | Some w => spec body (bind y w (bind x u env)) end
      end
  | EQuant some x r cond =>
      match spec r env with None => None | Some vs => quant some (fun v => spec cond (bind x [v] env)) vs end
  end.

(* any occurrence of $z in e (bound or free) *)
Fixpoint mentions (z : nat) (e : expr) : bool :=
  match e with
  | ELit _ => false
  | EVar x => Nat.eqb x z
  | ESeq a b | EAdd a b => mentions z a || mentions z b
  | EFor _ r b | ELet _ r b | EQuant _ _ r b => mentions z r || mentions z b
  | EFor2 _ r1 _ r2 b | ELet2 _ r1 _ r2 b => mentions z r1 || mentions z r2 || mentions z b
  end.
(* the parser's check at 'for': "loop variable in its range expression" is rejected (XPST0008) — the only part of it
   the scoping theorem needs is the second range expression of a two-variable 'for' *)
Fixpoint wf (e : expr) : bool :=
  match e with
  | ELit _ | EVar _ => true
  | ESeq a b | EAdd a b => wf a && wf b
  | EFor _ r b | ELet _ r b | EQuant _ _ r b => wf r && wf b
  | EFor2 _ r1 y r2 b => wf r1 && wf r2 && wf b && negb (mentions y r2)
  | ELet2 _ r1 _ r2 b => wf r1 && wf r2 && wf b
  end.

(* ---------- implementation: a heap of mutable dictionaries ---------- *)
Definition heap := list dict.
Definition get (p : nat) (h : heap) : dict := nth p h [].
Fixpoint write (p x : nat) (v : value) (h : heap) : heap :=
  match h, p with
  | [], _ => []
  | d :: r, O => bind x v d :: r
  | d :: r, S q => d :: write q x v r
  end.
Definition res := option (value * heap).
(* "context = copy(context); context.variables = context.variables.copy()": a new dictionary, at address length h *)
Definition copy_vars (p : nat) (h : heap) : heap := h ++ [get p h].

(* for: "for results in copy(context).iter_product(..): context.variables.update(..); yield from body(copy(context))" *)
Fixpoint for_loop (body : heap -> res) (q x : nat) (vs : list Z) (h : heap) : res :=
  match vs with
  | [] => Some ([], h)
  | v :: r =>
      let h1 := write q x [v] (write q x [v] h) in         (* iter_product's write, then update() *)
      match body h1 with
      | None => None
      | Some (u, h2) => match for_loop body q x r h2 with None => None | Some (w, h3) => Some (u ++ w, h3) end
      end
  end.
(* two range variables: iter_product's index loop, range expressions re-evaluated for every outer value *)
Fixpoint for_inner (body : heap -> res) (q x : nat) (v1 : Z) (y : nat) (vs : list Z) (h : heap) : res :=
  match vs with
  | [] => Some ([], h)
  | v2 :: r =>
      let h1 := write q y [v2] (write q x [v1] (write q y [v2] h)) in
      match body h1 with
      | None => None
      | Some (u, h2) => match for_inner body q x v1 y r h2 with None => None | Some (w, h3) => Some (u ++ w, h3) end
      end
  end.
Fixpoint for_outer (range2 body : heap -> res) (q x y : nat) (vs : list Z) (h : heap) : res :=
  match vs with
  | [] => Some ([], h)
  | v1 :: r =>
      let h1 := write q x [v1] h in
      match range2 h1 with
      | None => None
      | Some (vs2, h2) =>
          match for_inner body q x v1 y vs2 h2 with
          | None => None
          | Some (u, h3) => match for_outer range2 body q x y r h3 with None => None | Some (w, h4) => Some (u ++ w, h4) end
          end
      end
  end.
Fixpoint quant_loop (some : bool) (cond : heap -> res) (q x : nat) (vs : list Z) (h : heap) : res :=
  match vs with
  | [] => Some ([if some then 0 else 1], h)
  | v :: r =>
      let h1 := write q x [v] (write q x [v] h) in
      match cond h1 with
      | None => None
      | Some (c, h2) => if some then (if truth c then Some ([1], h2) else quant_loop some cond q x r h2)
                        else (if truth c then quant_loop some cond q x r h2 else Some ([0], h2))
      end
  end.

Fixpoint impl (e : expr) (p : nat) (h : heap) {struct e} : res :=
  match e with
  | ELit v => Some (v, h)
  | EVar x => match lookup x (get p h) with None => None | Some v => Some (v, h) end
  | ESeq a b =>                                     (* operands share the caller's dictionary *)
      match impl a p h with None => None | Some (u, h1) =>
      match impl b p h1 with None => None | Some (v, h2) => Some (u ++ v, h2) end end
  | EAdd a b =>
      match impl a p h with None => None | Some ([], h1) => Some ([], h1) | Some (u, h1) =>
      match impl b p h1 with None => None | Some (v, h2) =>
      match add_v u v with None => None | Some w => Some (w, h2) end end end
  | EFor x r body =>
      let q := length h in
      match impl r q (copy_vars p h) with
      | None => None
      | Some (vs, h1) => for_loop (fun h' => impl body q h') q x vs h1
      end
  | EFor2 x r1 y r2 body =>
      let q := length h in
      match impl r1 q (copy_vars p h) with
      | None => None
      | Some (vs1, h1) => for_outer (fun h' => impl r2 q h') (fun h' => impl body q h') q x y vs1 h1
      end
  | ELet x v body =>
      let q := length h in
      match impl v q (copy_vars p h) with
      | None => None
      | Some (u, h1) => impl body q (write q x u h1)
      end
  | ELet2 x v1 y v2 body =>
      let q := length h in
      match impl v1 q (copy_vars p h) with
      | None => None
      | Some (u, h1) =>
          match impl v2 q (write q x u h1) with
          | None => None
          | Some (w, h2) => impl body q (write q y w h2)
          end
      end
  | EQuant some x r cond =>
      let q := length h in
      match impl r q (copy_vars p h) with
      | None => None
      | Some (vs, h1) => quant_loop some (fun h' => impl cond q h') q x vs h1
      end
  end.

(* the seeded-style variant: 'for' binds in the caller's dictionary (no copy) — used to show the theorem is not vacuous *)
Fixpoint impl_shared (e : expr) (p : nat) (h : heap) {struct e} : res :=
  match e with
  | EFor x r body =>
      match impl_shared r p h with
      | None => None
      | Some (vs, h1) => for_loop (fun h' => impl_shared body p h') p x vs h1
      end
  | ESeq a b =>
      match impl_shared a p h with None => None | Some (u, h1) =>
      match impl_shared b p h1 with None => None | Some (v, h2) => Some (u ++ v, h2) end end
  | ELit v => Some (v, h)
  | EVar x => match lookup x (get p h) with None => None | Some v => Some (v, h) end
  | _ => None
  end.
