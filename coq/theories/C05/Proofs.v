From Coq Require Import ZArith List Bool Arith Lia.
From EP Require Import C05.Model.
Import ListNotations.
Open Scope Z_scope.

(* ---- the specification depends only on the variables an expression mentions ---- *)
Lemma flat_map_opt_ext : forall f g l, (forall a, f a = g a) -> flat_map_opt f l = flat_map_opt g l.
Proof. intros f g l H. induction l as [|a r IH]; cbn; auto. rewrite H, IH. reflexivity. Qed.
Lemma quant_ext : forall s f g l, (forall a, f a = g a) -> quant s f l = quant s g l.
Proof. intros s f g l H. induction l as [|a r IH]; cbn; auto. rewrite H, IH. reflexivity. Qed.

Definition agree_on (e : expr) (d1 d2 : dict) : Prop := forall z, mentions z e = true -> lookup z d1 = lookup z d2.

Lemma agree_bind : forall (b : expr) x v d1 d2, (forall z, mentions z b = true -> z <> x -> lookup z d1 = lookup z d2) ->
  agree_on b (bind x v d1) (bind x v d2).
Proof.
  intros b x v d1 d2 H z Hz. cbn. destruct (Nat.eqb x z) eqn:E; auto. apply H; auto.
  apply Nat.eqb_neq in E. auto.
Qed.

Lemma agree_bind2 : forall (b : expr) x v y w d1 d2, (forall z, mentions z b = true -> lookup z d1 = lookup z d2) ->
  agree_on b (bind y w (bind x v d1)) (bind y w (bind x v d2)).
Proof. intros b x v y w d1 d2 H z Hz. cbn. destruct (Nat.eqb y z); auto. destruct (Nat.eqb x z); auto. Qed.

Lemma coincidence : forall e d1 d2, agree_on e d1 d2 -> spec e d1 = spec e d2.
Proof.
  unfold agree_on.
  induction e as [v|x|a IHa b IHb|a IHa b IHb|x r IHr b IHb|x r1 IH1 y r2 IH2 b IHb|x v IHv b IHb|x v1 IH1 y v2 IH2 b IHb|s x r IHr c IHc];
    intros d1 d2 H; cbn [spec].
  - reflexivity.
  - apply H. cbn. apply Nat.eqb_refl.
  - rewrite (IHa d1 d2), (IHb d1 d2); auto; intros z Hz; apply H; cbn; rewrite Hz; auto with bool.
  - rewrite (IHa d1 d2), (IHb d1 d2); auto; intros z Hz; apply H; cbn; rewrite Hz; auto with bool.
  - rewrite (IHr d1 d2) by (intros z Hz; apply H; cbn; rewrite Hz; auto with bool).
    destruct (spec r d2); auto. apply flat_map_opt_ext. intros a. apply IHb. apply agree_bind.
    intros z Hz _. apply H. cbn. rewrite Hz. auto with bool.
  - rewrite (IH1 d1 d2) by (intros z Hz; apply H; cbn; rewrite Hz; auto with bool).
    destruct (spec r1 d2); auto. apply flat_map_opt_ext. intros a.
    rewrite (IH2 (bind x [a] d1) (bind x [a] d2)).
    2:{ apply agree_bind. intros z Hz _. apply H. cbn. rewrite Hz. auto with bool. }
    destruct (spec r2 (bind x [a] d2)); auto. apply flat_map_opt_ext. intros a2. apply IHb.
    apply agree_bind2. intros z Hz. apply H. cbn. rewrite Hz. auto with bool.
  - rewrite (IHv d1 d2) by (intros z Hz; apply H; cbn; rewrite Hz; auto with bool).
    destruct (spec v d2); auto. apply IHb. apply agree_bind. intros z Hz _. apply H. cbn. rewrite Hz. auto with bool.
  - rewrite (IH1 d1 d2) by (intros z Hz; apply H; cbn; rewrite Hz; auto with bool).
    destruct (spec v1 d2) as [u|]; auto.
    rewrite (IH2 (bind x u d1) (bind x u d2)).
    2:{ apply agree_bind. intros z Hz _. apply H. cbn. rewrite Hz. auto with bool. }
    destruct (spec v2 (bind x u d2)); auto. apply IHb.
    apply agree_bind2. intros z Hz. apply H. cbn. rewrite Hz. auto with bool.
  - rewrite (IHr d1 d2) by (intros z Hz; apply H; cbn; rewrite Hz; auto with bool).
    destruct (spec r d2); auto. apply quant_ext. intros a. apply IHc. apply agree_bind.
    intros z Hz _. apply H. cbn. rewrite Hz. auto with bool.
Qed.

(* ---- heaps ---- *)
Lemma write_length : forall h q x v, length (write q x v h) = length h.
Proof. induction h as [|d r IH]; intros [|q] x v; cbn; auto. Qed.
Lemma get_write_same : forall h q x v, (q < length h)%nat -> get q (write q x v h) = bind x v (get q h).
Proof.
  unfold get. induction h as [|d r IH]; intros [|q] x v H; cbn in *; try lia; auto. apply IH. lia.
Qed.
Lemma firstn_write : forall h n q x v, (n <= q)%nat -> firstn n (write q x v h) = firstn n h.
Proof.
  induction h as [|d r IH]; intros n [|q] x v H; cbn; auto.
  - assert (n = 0)%nat by lia. subst. reflexivity.
  - destruct n; cbn; auto. f_equal. apply IH. lia.
Qed.
Lemma get_new : forall h d, get (length h) (h ++ [d]) = d.
Proof. intros. unfold get. rewrite app_nth2 by lia. rewrite Nat.sub_diag. reflexivity. Qed.
Lemma firstn_new : forall (h : heap) l, firstn (length h) (h ++ l) = h.
Proof. intros. rewrite firstn_app, Nat.sub_diag, firstn_all. cbn. apply app_nil_r. Qed.

(* h' extends h: the dictionaries that existed are unchanged *)
Definition ext (h h' : heap) : Prop := firstn (length h) h' = h.
Lemma ext_length : forall h h', ext h h' -> (length h <= length h')%nat.
Proof.
  unfold ext. intros h h' E. assert (L := firstn_length (length h) h'). rewrite E in L. lia.
Qed.
Lemma ext_firstn : forall h h' n, ext h h' -> (n <= length h)%nat -> firstn n h' = firstn n h.
Proof.
  unfold ext. intros h h' n E Hn. replace (firstn n h) with (firstn n (firstn (length h) h')) by (rewrite E; reflexivity).
  rewrite firstn_firstn. f_equal. lia.
Qed.
Lemma firstn_get : forall (h h' : heap) n p, firstn n h' = firstn n h -> (p < n)%nat -> get p h' = get p h.
Proof.
  unfold get. intros h h' n p E Hp.
  rewrite <- (firstn_skipn n h'), <- (firstn_skipn n h) at 1.
  destruct (Nat.lt_ge_cases p (length (firstn n h'))) as [L|L].
  - rewrite app_nth1 by exact L. rewrite E in *. rewrite app_nth1 by exact L. reflexivity.
  - (* p beyond both heaps *)
    assert (L2 : (length (firstn n h) <= p)%nat) by (rewrite <- E; exact L).
    rewrite firstn_length in L, L2.
    rewrite (firstn_skipn n h'), (firstn_skipn n h).
    rewrite !nth_overflow by lia. reflexivity.
Qed.
Lemma ext_get : forall h h' p, ext h h' -> (p < length h)%nat -> get p h' = get p h.
Proof. intros h h' p E Hp. apply (firstn_get h h' (length h)); auto. rewrite E. symmetry. apply firstn_all. Qed.
Lemma ext_trans_firstn : forall (h1 h2 : heap) n, ext h1 h2 -> (n <= length h1)%nat -> firstn n h2 = firstn n h1.
Proof. intros. apply ext_firstn; auto. Qed.

(* ---- correctness of one sub-evaluation at address q ---- *)
Definition body_ok (bi : heap -> res) (q : nat) (e : expr) : Prop := forall h, (q < length h)%nat ->
  match bi h with
  | Some (u, h') => spec e (get q h) = Some u /\ ext h h'
  | None => spec e (get q h) = None
  end.

Lemma for_loop_ok : forall bi q x body d, body_ok bi q body ->
  forall vs h, (q < length h)%nat -> (forall z, z <> x -> lookup z (get q h) = lookup z d) ->
  match for_loop bi q x vs h with
  | Some (u, h') => flat_map_opt (fun v => spec body (bind x [v] d)) vs = Some u /\ firstn q h' = firstn q h /\ (length h <= length h')%nat
  | None => flat_map_opt (fun v => spec body (bind x [v] d)) vs = None
  end.
Proof.
  intros bi q x body d OK. induction vs as [|a r IH]; intros h Hq Hag; cbn [for_loop flat_map_opt]; [auto|].
  set (h1 := write q x [a] (write q x [a] h)).
  assert (L1 : length h1 = length h) by (unfold h1; rewrite !write_length; reflexivity).
  assert (G1 : get q h1 = bind x [a] (bind x [a] (get q h))).
  { unfold h1. rewrite get_write_same by (rewrite write_length; exact Hq). rewrite get_write_same by exact Hq. reflexivity. }
  assert (C : spec body (get q h1) = spec body (bind x [a] d)).
  { apply coincidence. intros z _. rewrite G1. cbn. destruct (Nat.eqb x z) eqn:E; auto. apply Hag.
    apply Nat.eqb_neq in E. auto. }
  specialize (OK h1). rewrite L1 in OK. specialize (OK Hq).
  destruct (bi h1) as [[u h2]|].
  - destruct OK as (S1 & E1). rewrite C in S1. rewrite S1.
    assert (Len2 := ext_length _ _ E1).
    assert (Hq2 : (q < length h2)%nat) by lia.
    assert (Hag2 : forall z, z <> x -> lookup z (get q h2) = lookup z d).
    { intros z Hz. rewrite (ext_get h1 h2 q E1) by lia. rewrite G1. cbn.
      destruct (Nat.eqb x z) eqn:E; [apply Nat.eqb_eq in E; congruence|]. apply Hag. exact Hz. }
    specialize (IH h2 Hq2 Hag2).
    destruct (for_loop bi q x r h2) as [[w h3]|].
    + destruct IH as (S2 & F2 & Len3). rewrite S2. split; [reflexivity|]. split; [|lia].
      rewrite F2. rewrite (ext_firstn h1 h2 q E1) by lia. unfold h1. rewrite !firstn_write by lia. reflexivity.
    + rewrite IH. reflexivity.
  - rewrite C in OK. rewrite OK. reflexivity.
Qed.

Lemma quant_loop_ok : forall s bi q x cond d, body_ok bi q cond ->
  forall vs h, (q < length h)%nat -> (forall z, z <> x -> lookup z (get q h) = lookup z d) ->
  match quant_loop s bi q x vs h with
  | Some (u, h') => quant s (fun v => spec cond (bind x [v] d)) vs = Some u /\ firstn q h' = firstn q h /\ (length h <= length h')%nat
  | None => quant s (fun v => spec cond (bind x [v] d)) vs = None
  end.
Proof.
  intros s bi q x cond d OK. induction vs as [|a r IH]; intros h Hq Hag; cbn [quant_loop quant]; [auto|].
  set (h1 := write q x [a] (write q x [a] h)).
  assert (L1 : length h1 = length h) by (unfold h1; rewrite !write_length; reflexivity).
  assert (G1 : get q h1 = bind x [a] (bind x [a] (get q h))).
  { unfold h1. rewrite get_write_same by (rewrite write_length; exact Hq). rewrite get_write_same by exact Hq. reflexivity. }
  assert (C : spec cond (get q h1) = spec cond (bind x [a] d)).
  { apply coincidence. intros z _. rewrite G1. cbn. destruct (Nat.eqb x z) eqn:E; auto. apply Hag.
    apply Nat.eqb_neq in E. auto. }
  specialize (OK h1). rewrite L1 in OK. specialize (OK Hq).
  destruct (bi h1) as [[c h2]|].
  - destruct OK as (S1 & E1). rewrite C in S1. rewrite S1.
    assert (Len2 := ext_length _ _ E1).
    assert (Hq2 : (q < length h2)%nat) by lia.
    assert (F12 : firstn q h2 = firstn q h).
    { rewrite (ext_firstn h1 h2 q E1) by lia. unfold h1. rewrite !firstn_write by lia. reflexivity. }
    assert (Hag2 : forall z, z <> x -> lookup z (get q h2) = lookup z d).
    { intros z Hz. rewrite (ext_get h1 h2 q E1) by lia. rewrite G1. cbn.
      destruct (Nat.eqb x z) eqn:E; [apply Nat.eqb_eq in E; congruence|]. apply Hag. exact Hz. }
    specialize (IH h2 Hq2 Hag2).
    destruct s; destruct (truth c).
    + split; [reflexivity|]. split; [exact F12|lia].
    + destruct (quant_loop true bi q x r h2) as [[w h3]|]; [|exact IH].
      destruct IH as (S2 & F2 & Len3). split; [exact S2|]. split; [congruence|lia].
    + destruct (quant_loop false bi q x r h2) as [[w h3]|]; [|exact IH].
      destruct IH as (S2 & F2 & Len3). split; [exact S2|]. split; [congruence|lia].
    + split; [reflexivity|]. split; [exact F12|lia].
  - rewrite C in OK. rewrite OK. reflexivity.
Qed.

Lemma for_inner_ok : forall bi q x v1 y body d, body_ok bi q body ->
  forall vs h, (q < length h)%nat -> (forall z, z <> x -> z <> y -> lookup z (get q h) = lookup z d) ->
  match for_inner bi q x v1 y vs h with
  | Some (u, h') => flat_map_opt (fun v2 => spec body (bind y [v2] (bind x [v1] d))) vs = Some u /\
                    firstn q h' = firstn q h /\ (length h <= length h')%nat /\
                    (forall z, z <> x -> z <> y -> lookup z (get q h') = lookup z d)
  | None => flat_map_opt (fun v2 => spec body (bind y [v2] (bind x [v1] d))) vs = None
  end.
Proof.
  intros bi q x v1 y body d OK. induction vs as [|a r IH]; intros h Hq Hag; cbn [for_inner flat_map_opt]; [auto|].
  set (h1 := write q y [a] (write q x [v1] (write q y [a] h))).
  assert (L1 : length h1 = length h) by (unfold h1; rewrite !write_length; reflexivity).
  assert (G1 : get q h1 = bind y [a] (bind x [v1] (bind y [a] (get q h)))).
  { unfold h1. rewrite get_write_same by (rewrite !write_length; exact Hq).
    rewrite get_write_same by (rewrite write_length; exact Hq). rewrite get_write_same by exact Hq. reflexivity. }
  assert (D1 : forall z, lookup z (get q h1) = lookup z (bind y [a] (bind x [v1] d))).
  { intros z. rewrite G1. cbn. destruct (Nat.eqb y z) eqn:Ey; auto. destruct (Nat.eqb x z) eqn:Ex; auto.
    apply Hag; apply Nat.eqb_neq; rewrite Nat.eqb_sym; assumption. }
  assert (C : spec body (get q h1) = spec body (bind y [a] (bind x [v1] d))).
  { apply coincidence. intros z _. apply D1. }
  specialize (OK h1). rewrite L1 in OK. specialize (OK Hq).
  destruct (bi h1) as [[u h2]|].
  - destruct OK as (S1 & E1). rewrite C in S1. rewrite S1.
    assert (Len2 := ext_length _ _ E1).
    assert (Hq2 : (q < length h2)%nat) by lia.
    assert (Hag2 : forall z, z <> x -> z <> y -> lookup z (get q h2) = lookup z d).
    { intros z Hx Hy. rewrite (ext_get h1 h2 q E1) by lia. rewrite D1. cbn.
      destruct (Nat.eqb y z) eqn:Ey; [apply Nat.eqb_eq in Ey; congruence|].
      destruct (Nat.eqb x z) eqn:Ex; [apply Nat.eqb_eq in Ex; congruence|]. reflexivity. }
    specialize (IH h2 Hq2 Hag2).
    destruct (for_inner bi q x v1 y r h2) as [[w h3]|].
    + destruct IH as (S2 & F2 & Len3 & Ag3). rewrite S2. split; [reflexivity|]. split; [|split; [lia|exact Ag3]].
      rewrite F2. rewrite (ext_firstn h1 h2 q E1) by lia. unfold h1. rewrite !firstn_write by lia. reflexivity.
    + rewrite IH. reflexivity.
  - rewrite C in OK. rewrite OK. reflexivity.
Qed.

Definition outer_f (r2 body : expr) (x y : nat) (d : dict) (v1 : Z) : option value :=
  match spec r2 (bind x [v1] d) with
  | None => None
  | Some vs2 => flat_map_opt (fun v2 => spec body (bind y [v2] (bind x [v1] d))) vs2
  end.
Lemma for_outer_ok : forall r2i bi q x y r2 body d, body_ok r2i q r2 -> body_ok bi q body -> mentions y r2 = false ->
  forall vs h, (q < length h)%nat -> (forall z, z <> x -> z <> y -> lookup z (get q h) = lookup z d) ->
  match for_outer r2i bi q x y vs h with
  | Some (u, h') => flat_map_opt (outer_f r2 body x y d) vs = Some u /\ firstn q h' = firstn q h /\ (length h <= length h')%nat
  | None => flat_map_opt (outer_f r2 body x y d) vs = None
  end.
Proof.
  intros r2i bi q x y r2 body d OK2 OKb NM. induction vs as [|a r IH]; intros h Hq Hag; cbn [for_outer flat_map_opt]; [auto|].
  set (h1 := write q x [a] h).
  assert (L1 : length h1 = length h) by (unfold h1; rewrite write_length; reflexivity).
  assert (G1 : get q h1 = bind x [a] (get q h)) by (unfold h1; apply get_write_same; exact Hq).
  assert (C : spec r2 (get q h1) = spec r2 (bind x [a] d)).
  { apply coincidence. intros z Hz. rewrite G1. cbn. destruct (Nat.eqb x z) eqn:Ex; auto.
    apply Hag; [apply Nat.eqb_neq; rewrite Nat.eqb_sym; exact Ex|]. intros ->. congruence. }
  assert (O2 := OK2 h1). rewrite L1 in O2. specialize (O2 Hq).
  unfold outer_f at 1. unfold outer_f at 2.
  destruct (r2i h1) as [[vs2 h2]|].
  - destruct O2 as (S1 & E1). rewrite C in S1. rewrite S1.
    assert (Len2 := ext_length _ _ E1).
    assert (Hq2 : (q < length h2)%nat) by lia.
    assert (Hag2 : forall z, z <> x -> z <> y -> lookup z (get q h2) = lookup z d).
    { intros z Hx Hy. rewrite (ext_get h1 h2 q E1) by lia. rewrite G1. cbn.
      destruct (Nat.eqb x z) eqn:Ex; [apply Nat.eqb_eq in Ex; congruence|]. apply Hag; assumption. }
    assert (I := for_inner_ok bi q x a y body d OKb vs2 h2 Hq2 Hag2).
    destruct (for_inner bi q x a y vs2 h2) as [[u h3]|].
    + destruct I as (S2 & F2 & Len3 & Ag3). rewrite S2.
      assert (Hq3 : (q < length h3)%nat) by lia.
      specialize (IH h3 Hq3 Ag3).
      destruct (for_outer r2i bi q x y r h3) as [[w h4]|].
      * destruct IH as (S3 & F3 & Len4). rewrite S3. split; [reflexivity|]. split; [|lia].
        rewrite F3, F2. rewrite (ext_firstn h1 h2 q E1) by lia. unfold h1. rewrite firstn_write by lia. reflexivity.
      * rewrite IH. reflexivity.
    + rewrite I. reflexivity.
  - rewrite C in O2. rewrite O2. reflexivity.
Qed.

Lemma ext_refl : forall h, ext h h.
Proof. intros. apply firstn_all. Qed.
Lemma ext_trans : forall h1 h2 h3, ext h1 h2 -> ext h2 h3 -> ext h1 h3.
Proof.
  intros h1 h2 h3 E1 E2. unfold ext. rewrite (ext_firstn h2 h3 (length h1) E2) by (apply ext_length; exact E1). exact E1.
Qed.
(* from "the first q dictionaries are those of the copied heap" back to the caller's heap *)
Lemma ext_of_copy : forall p (h h1 h' : heap), ext (copy_vars p h) h1 -> firstn (length h) h' = firstn (length h) h1 -> ext h h'.
Proof.
  intros p h h1 h' E F. unfold ext. rewrite F. rewrite (ext_firstn _ _ (length h) E).
  - unfold copy_vars. apply firstn_new.
  - unfold copy_vars. rewrite app_length. lia.
Qed.

Theorem impl_refines_spec : forall e, wf e = true -> forall p h, (p < length h)%nat ->
  match impl e p h with
  | Some (v, h') => spec e (get p h) = Some v /\ ext h h'
  | None => spec e (get p h) = None
  end.
Proof.
  induction e as [v|x|a IHa b IHb|a IHa b IHb|x r IHr b IHb|x r1 IH1 y r2 IH2 b IHb|x v IHv b IHb|x v1 IH1 y v2 IH2 b IHb|s x r IHr c IHc];
    intros W p h Hp; cbn [wf] in W; cbn [impl spec].
  - split; [reflexivity|apply ext_refl].
  - destruct (lookup x (get p h)); [split; [reflexivity|apply ext_refl]|reflexivity].
  - apply andb_prop in W. destruct W as (Wa & Wb).
    specialize (IHa Wa p h Hp). destruct (impl a p h) as [[u h1]|]; [|rewrite IHa; reflexivity].
    destruct IHa as (Sa & Ea). rewrite Sa.
    assert (Hp1 : (p < length h1)%nat) by (apply ext_length in Ea; lia).
    specialize (IHb Wb p h1 Hp1). rewrite (ext_get h h1 p Ea Hp) in IHb.
    destruct (impl b p h1) as [[w h2]|]; [|rewrite IHb; reflexivity].
    destruct IHb as (Sb & Eb). rewrite Sb. split; [reflexivity|]. eapply ext_trans; eauto.
  - apply andb_prop in W. destruct W as (Wa & Wb).
    specialize (IHa Wa p h Hp). destruct (impl a p h) as [[u h1]|]; [|rewrite IHa; reflexivity].
    destruct IHa as (Sa & Ea). rewrite Sa.
    destruct u as [|u0 ur]; [split; [reflexivity|exact Ea]|].
    assert (Hp1 : (p < length h1)%nat) by (apply ext_length in Ea; lia).
    specialize (IHb Wb p h1 Hp1). rewrite (ext_get h h1 p Ea Hp) in IHb.
    destruct (impl b p h1) as [[w h2]|]; [|rewrite IHb; reflexivity].
    destruct IHb as (Sb & Eb). rewrite Sb. destruct (add_v (u0 :: ur) w); [|reflexivity].
    split; [reflexivity|]. eapply ext_trans; eauto.
  - apply andb_prop in W. destruct W as (Wr & Wb).
    set (q := length h). set (h0 := copy_vars p h).
    assert (L0 : length h0 = S q) by (unfold h0, copy_vars; rewrite app_length; cbn; lia).
    assert (G0 : get q h0 = get p h) by (unfold h0, copy_vars, q; apply get_new).
    assert (Hq0 : (q < length h0)%nat) by lia.
    specialize (IHr Wr q h0 Hq0). rewrite G0 in IHr.
    destruct (impl r q h0) as [[vs h1]|]; [|rewrite IHr; reflexivity].
    destruct IHr as (Sr & Er). rewrite Sr.
    assert (Len1 := ext_length _ _ Er).
    assert (Hq1 : (q < length h1)%nat) by lia.
    assert (G1 : get q h1 = get p h) by (rewrite (ext_get h0 h1 q Er Hq0); exact G0).
    assert (OK : body_ok (fun h' => impl b q h') q b) by (intros h' Hh'; apply (IHb Wb q h' Hh')).
    assert (L := for_loop_ok _ q x b (get p h) OK vs h1 Hq1).
    rewrite G1 in L. specialize (L (fun z _ => eq_refl)).
    destruct (for_loop (fun h' => impl b q h') q x vs h1) as [[u h']|]; [|exact L].
    destruct L as (S2 & F2 & _). split; [exact S2|]. apply (ext_of_copy p h h1 h' Er). exact F2.
  - apply andb_prop in W. destruct W as (W & NM). apply andb_prop in W. destruct W as (W & Wb).
    apply andb_prop in W. destruct W as (W1 & W2). apply negb_true_iff in NM.
    set (q := length h). set (h0 := copy_vars p h).
    assert (L0 : length h0 = S q) by (unfold h0, copy_vars; rewrite app_length; cbn; lia).
    assert (G0 : get q h0 = get p h) by (unfold h0, copy_vars, q; apply get_new).
    assert (Hq0 : (q < length h0)%nat) by lia.
    specialize (IH1 W1 q h0 Hq0). rewrite G0 in IH1.
    destruct (impl r1 q h0) as [[vs h1]|]; [|rewrite IH1; reflexivity].
    destruct IH1 as (Sr & Er). rewrite Sr.
    assert (Len1 := ext_length _ _ Er).
    assert (Hq1 : (q < length h1)%nat) by lia.
    assert (G1 : get q h1 = get p h) by (rewrite (ext_get h0 h1 q Er Hq0); exact G0).
    assert (OK2 : body_ok (fun h' => impl r2 q h') q r2) by (intros h' Hh'; apply (IH2 W2 q h' Hh')).
    assert (OKb : body_ok (fun h' => impl b q h') q b) by (intros h' Hh'; apply (IHb Wb q h' Hh')).
    assert (L := for_outer_ok _ _ q x y r2 b (get p h) OK2 OKb NM vs h1 Hq1).
    rewrite G1 in L. specialize (L (fun z _ _ => eq_refl)). unfold outer_f in L.
    destruct (for_outer (fun h' => impl r2 q h') (fun h' => impl b q h') q x y vs h1) as [[u h']|]; [|exact L].
    destruct L as (S2 & F2 & _). split; [exact S2|]. apply (ext_of_copy p h h1 h' Er). exact F2.
  - apply andb_prop in W. destruct W as (Wv & Wb).
    set (q := length h). set (h0 := copy_vars p h).
    assert (L0 : length h0 = S q) by (unfold h0, copy_vars; rewrite app_length; cbn; lia).
    assert (G0 : get q h0 = get p h) by (unfold h0, copy_vars, q; apply get_new).
    assert (Hq0 : (q < length h0)%nat) by lia.
    specialize (IHv Wv q h0 Hq0). rewrite G0 in IHv.
    destruct (impl v q h0) as [[u h1]|]; [|rewrite IHv; reflexivity].
    destruct IHv as (Sv & Ev). rewrite Sv.
    assert (Len1 := ext_length _ _ Ev).
    assert (Hq1 : (q < length h1)%nat) by lia.
    assert (G1 : get q h1 = get p h) by (rewrite (ext_get h0 h1 q Ev Hq0); exact G0).
    set (hw := write q x u h1).
    assert (Lw : length hw = length h1) by (unfold hw; apply write_length).
    assert (Gw : get q hw = bind x u (get p h)) by (unfold hw; rewrite get_write_same by exact Hq1; rewrite G1; reflexivity).
    assert (Hqw : (q < length hw)%nat) by lia.
    specialize (IHb Wb q hw Hqw). rewrite Gw in IHb.
    destruct (impl b q hw) as [[w h']|]; [|exact IHb].
    destruct IHb as (Sb & Eb). split; [exact Sb|]. apply (ext_of_copy p h h1 h' Ev).
    fold q. rewrite (ext_firstn hw h' q Eb) by lia. unfold hw. apply firstn_write. lia.
  - apply andb_prop in W. destruct W as (W & Wb). apply andb_prop in W. destruct W as (W1 & W2).
    set (q := length h). set (h0 := copy_vars p h).
    assert (L0 : length h0 = S q) by (unfold h0, copy_vars; rewrite app_length; cbn; lia).
    assert (G0 : get q h0 = get p h) by (unfold h0, copy_vars, q; apply get_new).
    assert (Hq0 : (q < length h0)%nat) by lia.
    specialize (IH1 W1 q h0 Hq0). rewrite G0 in IH1.
    destruct (impl v1 q h0) as [[u h1]|]; [|rewrite IH1; reflexivity].
    destruct IH1 as (Sv & Ev). rewrite Sv.
    assert (Len1 := ext_length _ _ Ev).
    assert (Hq1 : (q < length h1)%nat) by lia.
    assert (G1 : get q h1 = get p h) by (rewrite (ext_get h0 h1 q Ev Hq0); exact G0).
    set (hw := write q x u h1).
    assert (Lw : length hw = length h1) by (unfold hw; apply write_length).
    assert (Gw : get q hw = bind x u (get p h)) by (unfold hw; rewrite get_write_same by exact Hq1; rewrite G1; reflexivity).
    assert (Hqw : (q < length hw)%nat) by lia.
    specialize (IH2 W2 q hw Hqw). rewrite Gw in IH2.
    destruct (impl v2 q hw) as [[w h2]|]; [|rewrite IH2; reflexivity].
    destruct IH2 as (S2 & E2). rewrite S2.
    assert (Len2 := ext_length _ _ E2).
    assert (Hq2 : (q < length h2)%nat) by lia.
    set (hw2 := write q y w h2).
    assert (Lw2 : length hw2 = length h2) by (unfold hw2; apply write_length).
    assert (Gw2 : get q hw2 = bind y w (bind x u (get p h))).
    { unfold hw2. rewrite get_write_same by exact Hq2. rewrite (ext_get hw h2 q E2 Hqw), Gw. reflexivity. }
    assert (Hqw2 : (q < length hw2)%nat) by lia.
    specialize (IHb Wb q hw2 Hqw2). rewrite Gw2 in IHb.
    destruct (impl b q hw2) as [[w' h']|]; [|exact IHb].
    destruct IHb as (Sb & Eb). split; [exact Sb|]. apply (ext_of_copy p h h1 h' Ev).
    fold q. rewrite (ext_firstn hw2 h' q Eb) by lia. unfold hw2. rewrite firstn_write by lia.
    rewrite (ext_firstn hw h2 q E2) by lia. unfold hw. apply firstn_write. lia.
  - apply andb_prop in W. destruct W as (Wr & Wc).
    set (q := length h). set (h0 := copy_vars p h).
    assert (L0 : length h0 = S q) by (unfold h0, copy_vars; rewrite app_length; cbn; lia).
    assert (G0 : get q h0 = get p h) by (unfold h0, copy_vars, q; apply get_new).
    assert (Hq0 : (q < length h0)%nat) by lia.
    specialize (IHr Wr q h0 Hq0). rewrite G0 in IHr.
    destruct (impl r q h0) as [[vs h1]|]; [|rewrite IHr; reflexivity].
    destruct IHr as (Sr & Er). rewrite Sr.
    assert (Len1 := ext_length _ _ Er).
    assert (Hq1 : (q < length h1)%nat) by lia.
    assert (G1 : get q h1 = get p h) by (rewrite (ext_get h0 h1 q Er Hq0); exact G0).
    assert (OK : body_ok (fun h' => impl c q h') q c) by (intros h' Hh'; apply (IHc Wc q h' Hh')).
    assert (L := quant_loop_ok s _ q x c (get p h) OK vs h1 Hq1).
    rewrite G1 in L. specialize (L (fun z _ => eq_refl)).
    destruct (quant_loop s (fun h' => impl c q h') q x vs h1) as [[u h']|]; [|exact L].
    destruct L as (S2 & F2 & _). split; [exact S2|]. apply (ext_of_copy p h h1 h' Er). exact F2.
Qed.
