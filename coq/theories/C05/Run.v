From Coq Require Import ZArith List Bool.
From EP Require Import C05.Model.
Import ListNotations.
Open Scope Z_scope.
Definition enc (o : option value) : Z * list Z := match o with Some v => (1, v) | None => (0, []) end.
(* (implementation model, specification, accepted by the parser's check) *)
Definition run (e : expr) (env : dict) : (Z * list Z) * (Z * list Z) * Z :=
  (enc (option_map fst (impl e 0 [env])), enc (spec e env), if wf e then 1 else 0).
