(* C05 property theorems (statements only; proofs are `exact`/short compositions of Proofs.v lemmas). *)
From Coq Require Import ZArith List Bool Arith Lia.
From EP Require Import C05.Model C05.Proofs.
From EP Require Gen.C05Shape.
Import ListNotations.
Open Scope Z_scope.

(* The implementation discipline (shared mutable variables dict behind shallow context copies, one dict copy per
   binding construct, iter_product and update() writing loop variables in place) computes exactly the lexically
   scoped semantics, and every dictionary that existed before the evaluation - the caller's included - is unchanged.
   For every expression accepted by the parser's range-variable check, every heap, every caller dictionary. *)
Theorem C05_scoping_refinement : forall e, wf e = true -> forall p h, (p < length h)%nat ->
  match impl e p h with
  | Some (v, h') => spec e (get p h) = Some v /\ firstn (length h) h' = h
  | None => spec e (get p h) = None
  end.
Proof. exact impl_refines_spec. Qed.
Print Assumptions C05_scoping_refinement.

(* the caller's variables after an evaluation are the caller's variables before it *)
Theorem C05_caller_variables_unchanged : forall e p h v h', wf e = true -> (p < length h)%nat ->
  impl e p h = Some (v, h') -> forall q, (q < length h)%nat -> get q h' = get q h.
Proof.
  intros e p h v h' W Hp E q Hq. assert (R := impl_refines_spec e W p h Hp). rewrite E in R.
  destruct R as (_ & X). apply ext_get; assumption.
Qed.
Print Assumptions C05_caller_variables_unchanged.

(* a variable of the same name read after a binding construct has its outer value *)
Theorem C05_outer_variable_after_binding : forall e x p h u h1 v, wf e = true -> (p < length h)%nat ->
  lookup x (get p h) = Some v -> impl e p h = Some (u, h1) -> impl (ESeq e (EVar x)) p h = Some (u ++ v, h1).
Proof.
  intros e x p h u h1 v W Hp L E. cbn [impl]. rewrite E.
  rewrite (C05_caller_variables_unchanged e p h u h1 W Hp E p Hp). rewrite L. reflexivity.
Qed.
Print Assumptions C05_outer_variable_after_binding.

(* history independence on the variables side: after any earlier evaluations (any extension of the heap) the same
   expression on the same caller dictionary yields the same items *)
Theorem C05_repeatable : forall e p h h', wf e = true -> (p < length h)%nat -> firstn (length h) h' = h ->
  option_map fst (impl e p h') = option_map fst (impl e p h).
Proof.
  intros e p h h' W Hp E.
  assert (Hp' : (p < length h')%nat) by (apply ext_length in E; lia).
  assert (R1 := impl_refines_spec e W p h Hp). assert (R2 := impl_refines_spec e W p h' Hp').
  rewrite (ext_get h h' p E Hp) in R2.
  destruct (impl e p h) as [[v1 h1]|], (impl e p h') as [[v2 h2]|]; cbn; try reflexivity.
  - destruct R1 as (A & _), R2 as (B & _). congruence.
  - destruct R1 as (A & _). congruence.
  - destruct R2 as (B & _). congruence.
Qed.
Print Assumptions C05_repeatable.

(* not vacuous: binding in the shared dictionary (a 'for' without its dict copy) leaks — $x := 10,
   ((for $x in (1, 2) return $x), $x) gives (1, 2, 2) instead of (1, 2, 10) *)
Theorem C05_shared_dict_refuted : exists e p h,
  option_map fst (impl_shared e p h) <> spec e (get p h) /\ option_map fst (impl e p h) = spec e (get p h).
Proof.
  exists (ESeq (EFor 0 (ELit [1; 2]) (EVar 0)) (EVar 0)), 0%nat, [[(0%nat, [10])]]. vm_compute. split; [discriminate|reflexivity].
Qed.
Print Assumptions C05_shared_dict_refuted.

(* the two-variable 'for' is lexically scoped only because the parser rejects a range expression that mentions its
   own variable: with $y := 7, "for $x in (1, 2), $y in ($y + 1) return $y" would give (8, 9) instead of (8, 8) *)
Theorem C05_for2_needs_range_check : exists e p h,
  wf e = false /\ option_map fst (impl e p h) <> spec e (get p h).
Proof.
  exists (EFor2 0 (ELit [1; 2]) 1 (EAdd (EVar 1) (ELit [1])) (EVar 1)), 0%nat, [[(1%nat, [7])]]. vm_compute. split; [reflexivity|discriminate].
Qed.
Print Assumptions C05_for2_needs_range_check.

Example C05_nonvacuous :
  let e := ELet 0 (ELit [5]) (ESeq (EFor2 0 (ELit [1; 2]) 1 (ESeq (EVar 0) (EVar 2)) (EAdd (EVar 0) (EVar 1)))
                                   (ESeq (EVar 0) (EQuant true 0 (ELit [0; 3]) (EVar 0)))) in
  wf e = true /\ option_map fst (impl e 0 [[(2%nat, [100])]]) = Some [2; 101; 4; 102; 5; 1].
Proof. vm_compute. split; reflexivity. Qed.

(* the statements of /repo that the hand model mirrors are present in the source as read on this run (T-data,
   harness/shape.py -> Gen/C05Shape.v) *)
Theorem C05_source_shape : Gen.C05Shape.shape_ok = true.
Proof. reflexivity. Qed.
Print Assumptions C05_source_shape.
