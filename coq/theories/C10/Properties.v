(* C10 property theorems (statements only; proofs are `exact`/short compositions of Proofs.v lemmas). *)
From Coq Require Import ZArith List Bool Lia.
From EP Require Import Gen.C10Tables C10.Model C10.Proofs.
From EP Require Gen.C10Shape.
Import ListNotations.
Open Scope Z_scope.

(* the bounds declared by the 13 integer classes of the code are exactly those of XSD part 2 *)
Theorem C10_integer_bounds : int_bounds = spec_bounds.
Proof. exact bounds_table. Qed.
Print Assumptions C10_integer_bounds.

(* constructing an integer type from a string succeeds exactly for a lexical integer whose value is within the XSD
   bounds of the type, and yields that value: every type, every string *)
Theorem C10_integer_constructor : forall t s z,
  make_int int_bounds t s = Some z <-> (int_value s = Some z /\ in_bounds (nth t spec_bounds (None, None)) z = true).
Proof.
  intros t s z. rewrite bounds_table. unfold make_int. destruct (int_value s) as [v|]; [|split; [discriminate|intros (H & _); discriminate]].
  destruct (in_bounds (nth t spec_bounds (None, None)) v) eqn:E; split.
  - intros H. injection H as ->. auto.
  - intros (H & _). exact H.
  - discriminate.
  - intros (H & B). injection H as ->. congruence.
Qed.
Print Assumptions C10_integer_constructor.

(* the canonical string of every integer is in the lexical space and re-parses to the same value (fixed point) *)
Theorem C10_integer_canonical : forall z, lex_integer (print_int z) = true /\ int_value (print_int z) = Some z.
Proof. intros z. split; [apply print_int_lex|apply print_int_value]. Qed.
Print Assumptions C10_integer_canonical.

(* hexBinary and base64Binary: decoding the canonical encoding gives back the octets; so casting between the two
   types in either direction preserves the value: all octet sequences *)
Theorem C10_binary_roundtrip : forall bs, Forall byte bs ->
  dec_hex (enc_hex bs) = Some bs /\ dec64 (enc64 bs) = Some bs /\ lex_hex (enc_hex bs) = true /\ lex_base64 (enc64 bs) = true.
Proof.
  intros bs H. split; [apply hex_roundtrip; exact H|]. split; [apply b64_roundtrip; exact H|]. split; [apply enc_hex_lex; exact H|].
  unfold lex_base64. rewrite (b64_roundtrip bs H). reflexivity.
Qed.
Print Assumptions C10_binary_roundtrip.

Example C10_nonvacuous :
  make_int int_bounds 3 [57;50;50;51;51;55;50;48;51;54;56;53;52;55;55;53;56;48;55] = Some 9223372036854775807 /\   (* xs:long max *)
  make_int int_bounds 3 [57;50;50;51;51;55;50;48;51;54;56;53;52;55;55;53;56;48;56] = None /\
  make_int int_bounds 12 [43; 48; 50; 53; 53] = Some 255 /\ make_int int_bounds 12 [50; 53; 54] = None /\
  int_value [49; 95; 48] = None /\ print_int (-120) = [45; 49; 50; 48] /\
  enc64 [102; 111; 111; 98] = [90; 109; 57; 118; 89; 103; 61; 61] /\ enc_hex [0; 255; 16] = [48; 48; 70; 70; 49; 48] /\
  lex_double false [49; 46; 53; 69; 45; 49; 48] = true /\ lex_double false [43; 73; 78; 70] = false /\ lex_decimal [46] = false.
Proof. vm_compute. repeat split; reflexivity. Qed.

(* the statements of /repo that the hand model mirrors are present in the source as read on this run (T-data,
   harness/shape.py -> Gen/C10Shape.v) *)
Theorem C10_source_shape : Gen.C10Shape.shape_ok = true.
Proof. reflexivity. Qed.
Print Assumptions C10_source_shape.
