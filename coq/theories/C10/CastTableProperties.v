(* C10 property theorems: the casting table *)
From Coq Require Import ZArith List Bool.
From EP Require Import C10.CastTable.
Import ListNotations.

(* the structured decision is the table of F&O 19.1 *)
Theorem C10_casting_table : forall s t, castable s t = in_table s t.
Proof. intros s t. destruct s, t; reflexivity. Qed.
Print Assumptions C10_casting_table.
(* every type casts to itself, to xs:string and to xs:untypedAtomic, and from them *)
Theorem C10_casting_table_strings : forall t,
  castable t t = true /\ castable t CString = true /\ castable t CUntyped = true /\ castable CString t = true /\
  castable CUntyped t = true.
Proof. intros t. destruct t; repeat split; reflexivity. Qed.
Print Assumptions C10_casting_table_strings.
(* outside the string types casting stays within one family, except numeric <-> boolean and dateTime / date -> parts *)
Definition family_ok (s t : cty) : bool :=
  ((is_numeric s || cty_eqb s CBoolean) && (is_numeric t || cty_eqb t CBoolean)) ||
  (is_duration s && is_duration t) || (is_binary s && is_binary t) || cty_eqb s t ||
  ((cty_eqb s CDateTime || cty_eqb s CDate) && (cty_eqb t CDateTime || cty_eqb t CDate || cty_eqb t CTime || is_gtype t)).
Theorem C10_casting_table_families : forall s t, castable s t = true -> is_stringy s = false -> is_stringy t = false ->
  family_ok s t = true.
Proof. intros s t. destruct s, t; intros H H1 H2; try discriminate; reflexivity. Qed.
Print Assumptions C10_casting_table_families.
Example C10_cast_nonvacuous :
  castable CDate CGYear = true /\ castable CDate CTime = false /\ castable CBoolean CDouble = true /\
  castable CHex CBase64 = true /\ castable CAnyURI CInteger = false /\ castable CTime CDateTime = false.
Proof. repeat split; reflexivity. Qed.
