From Coq Require Import ZArith List Bool Lia ZifyBool.
From EP Require Import C10.Model C10.Whitespace.
Import ListNotations.
Open Scope Z_scope.

Definition nonws (c : Z) : bool := negb (is_ws c).

Lemma collapse_aux_content : forall s p st, filter nonws (collapse_aux s p st) = filter nonws s.
Proof.
  induction s as [|c r IH]; intros p st; [reflexivity|]. cbn [collapse_aux filter].
  destruct (is_ws c) eqn:W.
  - assert (N : nonws c = false) by (unfold nonws; rewrite W; reflexivity). rewrite N. apply IH.
  - assert (N : nonws c = true) by (unfold nonws; rewrite W; reflexivity). rewrite N.
    destruct p; cbn [app filter]; [change (nonws 32) with false; cbv iota|]; rewrite N; f_equal; apply IH.
Qed.

(* the output of collapse_aux after an emitted character (started = true): what follows is collapsed given whether a
   white space is pending *)
Lemma collapse_aux_collapsed : forall s p, collapsed_from false (collapse_aux s p true) = true.
Proof.
  induction s as [|c r IH]; intros p; [reflexivity|]. cbn [collapse_aux].
  destruct (is_ws c) eqn:W; [apply IH|].
  destruct p; cbn [app collapsed_from].
  - change (is_ws 32) with true. cbn [negb andb]. change (32 =? 32) with true. cbn [andb]. rewrite W. apply IH.
  - rewrite W. apply IH.
Qed.

Lemma collapse_collapsed : forall s, collapsed (collapse s) = true.
Proof.
  intros s. unfold collapse. induction s as [|c r IH]; [reflexivity|]. cbn [collapse_aux].
  destruct (is_ws c) eqn:W; [exact IH|]. cbn [app]. unfold collapsed. cbn [collapsed_from]. rewrite W.
  apply collapse_aux_collapsed.
Qed.

(* a collapsed string is a fixed point *)
Lemma collapse_aux_fixed : forall s, collapsed_from false s = true -> collapse_aux s false true = s.
Proof.
  induction s as [|c r IH]; intros H; [reflexivity|]. cbn [collapsed_from] in H. cbn [collapse_aux].
  destruct (is_ws c) eqn:W.
  - cbn [negb andb] in H. destruct (c =? 32) eqn:E; [|discriminate]. cbn [andb] in H.
    assert (c = 32) by lia. subst c.
    destruct r as [|d r']; [discriminate|]. cbn [collapsed_from] in H. cbn [collapse_aux].
    destruct (is_ws d) eqn:Wd; [discriminate|]. cbn [app]. f_equal. f_equal.
    cbn [collapsed_from] in IH. rewrite Wd in IH. specialize (IH H). cbn [collapse_aux] in IH. rewrite Wd in IH.
    cbn [app] in IH. injection IH as IH. exact IH.
  - cbn [app]. f_equal. apply IH. exact H.
Qed.
Lemma collapse_fixed : forall s, collapsed s = true -> collapse s = s.
Proof.
  intros [|c r] H; [reflexivity|]. unfold collapsed in H. cbn [collapsed_from] in H. unfold collapse. cbn [collapse_aux].
  destruct (is_ws c) eqn:W; [discriminate|]. cbn [app]. f_equal. apply collapse_aux_fixed. exact H.
Qed.
Lemma collapse_idempotent : forall s, collapse (collapse s) = collapse s.
Proof. intros s. apply collapse_fixed. apply collapse_collapsed. Qed.
