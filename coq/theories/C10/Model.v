(* C10 — atomic datatypes: lexical spaces (recognizers over code points), integer values and canonical strings, the
   bounds of the integer types, the hexBinary and base64Binary codecs. *)
From Coq Require Import ZArith List Bool Lia Decimal DecimalZ.
Import ListNotations.
Open Scope Z_scope.

Definition str := list Z.
Definition is_digit (c : Z) : bool := (48 <=? c) && (c <=? 57).
Definition digits1 (s : str) : bool := negb (match s with [] => true | _ => false end) && forallb is_digit s.
Definition strip_sign (s : str) : str := match s with 43 :: r | 45 :: r => r | _ => s end.

(* ---- lexical spaces (XSD 1.0/1.1 part 2) after whiteSpace=collapse ---- *)
Definition lex_integer (s : str) : bool := digits1 (strip_sign s).
(* decimal: [+-]? (digits+ ('.' digits* )? | '.' digits+) *)
Fixpoint split_at (c : Z) (s : str) : str * option str :=
  match s with
  | [] => ([], None)
  | x :: r => if x =? c then ([], Some r) else let '(a, b) := split_at c r in (x :: a, b)
  end.
Definition lex_unsigned_decimal (s : str) : bool :=
  match split_at 46 s with
  | (a, None) => digits1 a
  | (a, Some b) => forallb is_digit a && forallb is_digit b && negb (match a, b with [], [] => true | _, _ => false end)
  end.
Definition lex_decimal (s : str) : bool := lex_unsigned_decimal (strip_sign s).
Definition lex_boolean (s : str) : bool :=
  match s with [116; 114; 117; 101] | [102; 97; 108; 115; 101] | [49] | [48] => true | _ => false end.
(* double / float: decimal mantissa, optional exponent [eE][+-]?digits+, or INF -INF NaN (+INF in XSD 1.1) *)
Fixpoint split_exp (s : str) : str * option str :=
  match s with
  | [] => ([], None)
  | x :: r => if (x =? 101) || (x =? 69) then ([], Some r) else let '(a, b) := split_exp r in (x :: a, b)
  end.
Definition lex_double (xsd11 : bool) (s : str) : bool :=
  match s with
  | [73; 78; 70] | [45; 73; 78; 70] | [78; 97; 78] => true
  | [43; 73; 78; 70] => xsd11
  | _ => match split_exp s with
         | (m, None) => lex_decimal m
         | (m, Some e) => lex_decimal m && lex_integer e
         end
  end.
Definition is_hex (c : Z) : bool := is_digit c || ((65 <=? c) && (c <=? 70)) || ((97 <=? c) && (c <=? 102)).
Definition lex_hex (s : str) : bool := forallb is_hex s && Nat.even (length s).

(* ---- integer values and canonical strings ---- *)
Fixpoint uint_chars (u : uint) : str :=
  match u with
  | Nil => [] | D0 r => 48 :: uint_chars r | D1 r => 49 :: uint_chars r | D2 r => 50 :: uint_chars r
  | D3 r => 51 :: uint_chars r | D4 r => 52 :: uint_chars r | D5 r => 53 :: uint_chars r | D6 r => 54 :: uint_chars r
  | D7 r => 55 :: uint_chars r | D8 r => 56 :: uint_chars r | D9 r => 57 :: uint_chars r
  end.
Fixpoint chars_uint (s : str) : option uint :=
  match s with
  | [] => Some Nil
  | c :: r =>
      match chars_uint r with
      | None => None
      | Some u =>
          match c with
          | 48 => Some (D0 u) | 49 => Some (D1 u) | 50 => Some (D2 u) | 51 => Some (D3 u) | 52 => Some (D4 u)
          | 53 => Some (D5 u) | 54 => Some (D6 u) | 55 => Some (D7 u) | 56 => Some (D8 u) | 57 => Some (D9 u)
          | _ => None
          end
      end
  end.
Definition int_value (s : str) : option Z :=
  if lex_integer s then
    match s with
    | 45 :: r => option_map (fun u => Z.of_int (Neg u)) (chars_uint r)
    | 43 :: r => option_map (fun u => Z.of_int (Pos u)) (chars_uint r)
    | _ => option_map (fun u => Z.of_int (Pos u)) (chars_uint s)
    end
  else None.
(* str(int): no '+', no leading zeros, "-" only for negative values *)
Definition print_int (z : Z) : str := match Z.to_int z with Pos u => uint_chars u | Neg u => 45 :: uint_chars u end.

(* integer types, in the order of Gen/C10Tables.v; bounds of XSD part 2, upper bound made exclusive *)
Definition spec_bounds : list (option Z * option Z) :=
  [(None, None); (None, Some (0 + 1)); (None, Some (-1 + 1));
   (Some (- 2 ^ 63), Some (2 ^ 63 - 1 + 1)); (Some (- 2 ^ 31), Some (2 ^ 31 - 1 + 1)); (Some (- 2 ^ 15), Some (2 ^ 15 - 1 + 1));
   (Some (- 2 ^ 7), Some (2 ^ 7 - 1 + 1)); (Some 0, None); (Some 1, None);
   (Some 0, Some (2 ^ 64 - 1 + 1)); (Some 0, Some (2 ^ 32 - 1 + 1)); (Some 0, Some (2 ^ 16 - 1 + 1)); (Some 0, Some (2 ^ 8 - 1 + 1))].
Definition in_bounds (b : option Z * option Z) (z : Z) : bool :=
  (match fst b with None => true | Some lo => lo <=? z end) && (match snd b with None => true | Some hi => z <? hi end).
(* the constructor of integer type number t on the string s: Some value, or None (FORG0001) *)
Definition make_int (table : list (option Z * option Z)) (t : nat) (s : str) : option Z :=
  match int_value s with
  | Some z => if in_bounds (nth t table (None, None)) z then Some z else None
  | None => None
  end.

(* ---- hexBinary ---- *)
Definition hexd (n : Z) : Z := if n <? 10 then 48 + n else 55 + n.
Definition hexv (c : Z) : option Z :=
  if is_digit c then Some (c - 48) else if (65 <=? c) && (c <=? 70) then Some (c - 55)
  else if (97 <=? c) && (c <=? 102) then Some (c - 87) else None.
Fixpoint enc_hex (bs : list Z) : str := match bs with [] => [] | b :: r => hexd (b / 16) :: hexd (b mod 16) :: enc_hex r end.
Fixpoint dec_hex (s : str) : option (list Z) :=
  match s with
  | [] => Some []
  | a :: b :: r => match hexv a, hexv b, dec_hex r with Some x, Some y, Some bs => Some (16 * x + y :: bs) | _, _, _ => None end
  | _ => None
  end.

(* ---- base64Binary (RFC 4648 alphabet, '=' padding), spaces removed ---- *)
Definition b64_alphabet : list Z :=
  [65;66;67;68;69;70;71;72;73;74;75;76;77;78;79;80;81;82;83;84;85;86;87;88;89;90;
   97;98;99;100;101;102;103;104;105;106;107;108;109;110;111;112;113;114;115;116;117;118;119;120;121;122;
   48;49;50;51;52;53;54;55;56;57;43;47].
Definition b64c (n : Z) : Z := nth (Z.to_nat n) b64_alphabet 0.
Fixpoint index_of (c : Z) (l : list Z) (i : Z) : option Z :=
  match l with [] => None | x :: r => if x =? c then Some i else index_of c r (i + 1) end.
Definition b64v (c : Z) : option Z := index_of c b64_alphabet 0.
Fixpoint enc64 (bs : list Z) : str :=
  match bs with
  | [] => []
  | [a] => [b64c (a / 4); b64c ((a mod 4) * 16); 61; 61]
  | [a; b] => [b64c (a / 4); b64c ((a mod 4) * 16 + b / 16); b64c ((b mod 16) * 4); 61]
  | a :: b :: c :: r => b64c (a / 4) :: b64c ((a mod 4) * 16 + b / 16) :: b64c ((b mod 16) * 4 + c / 64) :: b64c (c mod 64) :: enc64 r
  end.
Fixpoint dec64 (s : str) : option (list Z) :=
  match s with
  | [] => Some []
  | w :: x :: y :: z :: rest =>
      if z =? 61 then
        match rest with
        | [] =>
            if y =? 61 then
              match b64v w, b64v x with
              | Some p, Some q => if q mod 16 =? 0 then Some [p * 4 + q / 16] else None
              | _, _ => None
              end
            else
              match b64v w, b64v x, b64v y with
              | Some p, Some q, Some r => if r mod 4 =? 0 then Some [p * 4 + q / 16; (q mod 16) * 16 + r / 4] else None
              | _, _, _ => None
              end
        | _ :: _ => None
        end
      else
        match b64v w, b64v x, b64v y, b64v z, dec64 rest with
        | Some p, Some q, Some r, Some t, Some bs => Some (p * 4 + q / 16 :: (q mod 16) * 16 + r / 4 :: (r mod 4) * 64 + t :: bs)
        | _, _, _, _, _ => None
        end
  | _ => None
  end.
Definition lex_base64 (s : str) : bool := match dec64 s with Some _ => true | None => false end.
Definition byte (b : Z) : Prop := 0 <= b < 256.
