(* C10 property theorems: lexical spaces of the date / time types *)
From Coq Require Import ZArith List Bool.
From EP Require Import Common.PyCalendar C10.Model C10.DateLex C10.DateLexProofs.
Import ListNotations.
Open Scope Z_scope.

(* canonical forms re-parse to the value they print - date, time and dateTime values with a four-digit year (1 BCE
   back to 9999 BCE, 1 to 9999), every valid month / day (leap years by the year numbering of the XSD version), every
   time of day in whole seconds, every timezone from -14:00 to +14:00 or none.
   FULL STATEMENT (not proved): the same for every year (more than four digits) and for fractional seconds. *)
Theorem C10_date_canonical_reparses_partial : forall v11 y m d t, date_ok v11 y m d -> tz_ok t ->
  lex_date v11 (print_date y m d t) = [1; y; m; d; otz t].
Proof. exact lex_date_print. Qed.
Print Assumptions C10_date_canonical_reparses_partial.
Theorem C10_time_canonical_reparses_partial : forall h mi sec t, tod_ok h mi sec -> tz_ok t ->
  lex_time (print_time h mi sec t) = [1; h; mi; sec; 0; otz t].
Proof. exact lex_time_print. Qed.
Print Assumptions C10_time_canonical_reparses_partial.
Theorem C10_dateTime_canonical_reparses_partial : forall v11 y m d h mi sec t, date_ok v11 y m d -> tod_ok h mi sec -> tz_ok t ->
  lex_dateTime v11 (print_dateTime y m d h mi sec t) = [1; y; m; d; h; mi; sec; 0; otz t].
Proof. exact lex_dateTime_print. Qed.
Print Assumptions C10_dateTime_canonical_reparses_partial.
(* every accepted string denotes a value of the value space: month 1..12, a day of that month in that year, no year zero
   in XSD 1.0, a timezone within 14 hours *)
Theorem C10_date_lexical_sound : forall v11 s y m d r z,
  (lex_date_part v11 s = Some (y, m, d, r) ->
     1 <= m <= 12 /\ 1 <= d <= month_days (astro_of v11 y) m /\ (v11 = false -> y <> 0)) /\
  (lex_tz s = Some (Some z) -> -840 <= z <= 840).
Proof. intros. split; [apply lex_date_part_valid|apply lex_tz_range]. Qed.
Print Assumptions C10_date_lexical_sound.

Example C10_datelex_nonvacuous :
  date_ok false (-1) 2 29 /\ ~ date_ok true (-1) 2 29 /\ date_ok true (-4) 2 29 /\
  lex_date false [45; 48; 48; 48; 49; 45; 48; 50; 45; 50; 57; 43; 49; 52; 58; 48; 48] = [1; -1; 2; 29; 840] /\
  lex_date true [45; 48; 48; 48; 49; 45; 48; 50; 45; 50; 57] = [] /\
  lex_duration 0 [45; 80; 49; 89; 50; 77; 51; 68; 84; 52; 72; 53; 77; 54; 46; 55; 83] = [1; -14; -273906700000] /\
  lex_duration 1 [80; 48; 89] = [] /\ lex_duration 2 [80; 48; 68] = [] /\ lex_duration 0 [80; 84] = [] /\
  lex_dateTime false [50; 48; 48; 48; 45; 48; 49; 45; 48; 49; 84; 50; 52; 58; 48; 48; 58; 48; 48; 46; 48] = [1; 2000; 1; 1; 24; 0; 0; 0; 9999].
Proof. unfold date_ok. vm_compute. repeat split; try discriminate; try (intros H; decompose [and] H; congruence); auto. Qed.
