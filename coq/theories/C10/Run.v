From Coq Require Import ZArith List Bool.
From EP Require Import Gen.C10Tables C10.Model.
Import ListNotations.
Open Scope Z_scope.
Definition b2z (b : bool) : Z := if b then 1 else 0.
(* lexical spaces: 0 integer | 1 decimal | 2 boolean | 3 double/float XSD 1.0 | 4 double/float XSD 1.1 | 5 hexBinary | 6 base64Binary *)
Definition run_lex (k : Z) (s : str) : Z :=
  b2z (match k with 0 => lex_integer s | 1 => lex_decimal s | 2 => lex_boolean s | 3 => lex_double false s | 4 => lex_double true s
                    | 5 => lex_hex s | _ => lex_base64 s end).
(* (model with the bounds read from the code, specification with the XSD bounds) *)
Definition enc_int (o : option Z) : Z * Z := match o with Some z => (1, z) | None => (0, 0) end.
Definition run_int (t : nat) (s : str) : (Z * Z) * (Z * Z) := (enc_int (make_int int_bounds t s), enc_int (make_int spec_bounds t s)).
Definition run_print (z : Z) : str := print_int z.
Definition opt_str (o : option str) : Z * str := match o with Some s => (1, s) | None => (0, []) end.
Definition run_hex_to_b64 (s : str) : Z * str := opt_str (option_map enc64 (if lex_hex s then dec_hex s else None)).
Definition run_b64_to_hex (s : str) : Z * str := opt_str (option_map enc_hex (dec64 s)).

(* ---- lexical spaces of the date / time / duration types (DateLex.v) ---- *)
From EP Require Import C10.DateLex.
(* kind: 0 date | 1 dateTime | 2 time | 3 gYear | 4 gYearMonth | 5 gMonth | 6 gDay | 7 gMonthDay | 8 duration |
   9 dayTimeDuration | 10 yearMonthDuration; [] = outside the lexical space, 1 :: fields otherwise *)
Definition run_datelex (kind : Z) (v11 : bool) (s : list Z) : list Z :=
  match kind with
  | 0 => lex_date v11 s | 1 => lex_dateTime v11 s | 2 => lex_time s | 3 => lex_gYear v11 s | 4 => lex_gYearMonth v11 s
  | 5 => lex_gMonth s | 6 => lex_gDay s | 7 => lex_gMonthDay s | 8 => lex_duration 0 s | 9 => lex_duration 1 s
  | _ => lex_duration 2 s
  end.

(* ---- the raw string through the whiteSpace facet collapse (Whitespace.v), then the recogniser:
   kinds 0..6 as run_lex, 100 + k as run_datelex k (XSD 1.0 numbering); 1 = in the lexical space ---- *)
From EP Require Import C10.Whitespace.
Definition run_ws (k : Z) (raw : str) : Z :=
  if k =? 6 then run_lex 6 (filter (fun c => negb (c =? 32)) (collapse raw))   (* B64S ::= B64 #x20? *)
  else if k <? 100 then run_lex k (collapse raw)
  else match run_datelex (k - 100) false (collapse raw) with [] => 0 | _ => 1 end.
