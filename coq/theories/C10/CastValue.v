(* C10: value-level casts inside the numeric / boolean family (F&O 19.1.x): numeric -> xs:integer truncates toward zero
   (FOCA0002 for NaN and the infinities), numeric -> xs:decimal keeps the exact value (FOCA0002 for NaN / INF),
   numeric -> xs:boolean is false for 0, -0 and NaN, xs:boolean -> numeric is 0 / 1.  Numeric values are exact rationals
   (C15.Keys.nval).  The implementation is tied by correspondence (cast as, castable as, constructor). *)
From Coq Require Import ZArith List Bool.
From EP Require Import C15.Keys.
Import ListNotations.
Open Scope Z_scope.

Definition cast_integer (v : nval) : option Z :=
  match v with NFin n d => Some (Z.quot n (Zpos d)) | _ => None end.
Definition cast_decimal (v : nval) : option nval :=
  match v with NFin _ _ => Some v | _ => None end.
Definition cast_boolean (v : nval) : bool :=
  match v with NFin n _ => negb (n =? 0) | NNaN => false | NPInf | NNInf => true end.
Definition of_boolean (b : bool) : nval := NFin (if b then 1 else 0) 1.

(* correspondence: target 0 integer | 1 decimal | 2 boolean; result [0; n; d] value, [-1] FOCA0002 *)
Definition run_cast_value (target : Z) (v : nval) : list Z :=
  match target with
  | 0 => match cast_integer v with Some z => [0; z; 1] | None => [-1] end
  | 1 => match cast_decimal v with Some (NFin n d) => [0; n; Zpos d] | _ => [-1] end
  | _ => [0; if cast_boolean v then 1 else 0; 1]
  end.
