(* C10: the casting table of F&O 19.1 over the primitive atomic types (plus xs:integer, xs:untypedAtomic and the two
   duration subtypes): castable s t says that a value of type s may be cast to type t at all (Y or M in the table);
   everything else is a type error XPTY0004 for `cast as` and false for `castable as`.
   castable is the structured decision (families: numeric, duration, date/time, binary); table is 19.1 transcribed row by
   row.  The implementation is tied to castable by correspondence (castable as / cast as / constructor function). *)
From Coq Require Import ZArith List Bool.
Import ListNotations.

Inductive cty := CUntyped | CString | CFloat | CDouble | CDecimal | CInteger | CDuration | CYM | CDT | CDateTime | CTime
               | CDate | CGYearMonth | CGYear | CGMonthDay | CGDay | CGMonth | CBoolean | CBase64 | CHex | CAnyURI.
Definition all_cty : list cty :=
  [CUntyped; CString; CFloat; CDouble; CDecimal; CInteger; CDuration; CYM; CDT; CDateTime; CTime; CDate; CGYearMonth; CGYear;
   CGMonthDay; CGDay; CGMonth; CBoolean; CBase64; CHex; CAnyURI].
Definition cty_eqb (a b : cty) : bool :=
  match a, b with
  | CUntyped, CUntyped | CString, CString | CFloat, CFloat | CDouble, CDouble | CDecimal, CDecimal
  | CInteger, CInteger | CDuration, CDuration | CYM, CYM | CDT, CDT | CDateTime, CDateTime | CTime, CTime
  | CDate, CDate | CGYearMonth, CGYearMonth | CGYear, CGYear | CGMonthDay, CGMonthDay | CGDay, CGDay
  | CGMonth, CGMonth | CBoolean, CBoolean | CBase64, CBase64 | CHex, CHex | CAnyURI, CAnyURI => true
  | _, _ => false
  end.

Definition is_numeric (t : cty) : bool := match t with CFloat | CDouble | CDecimal | CInteger => true | _ => false end.
Definition is_duration (t : cty) : bool := match t with CDuration | CYM | CDT => true | _ => false end.
Definition is_gtype (t : cty) : bool := match t with CGYearMonth | CGYear | CGMonthDay | CGDay | CGMonth => true | _ => false end.
Definition is_binary (t : cty) : bool := match t with CBase64 | CHex => true | _ => false end.
Definition is_stringy (t : cty) : bool := match t with CUntyped | CString => true | _ => false end.

Definition castable (s t : cty) : bool :=
  if is_stringy t || is_stringy s || cty_eqb s t then true
  else if is_numeric s then is_numeric t || cty_eqb t CBoolean
  else if cty_eqb s CBoolean then is_numeric t
  else if is_duration s then is_duration t
  else if cty_eqb s CDateTime then cty_eqb t CTime || cty_eqb t CDate || is_gtype t
  else if cty_eqb s CDate then cty_eqb t CDateTime || is_gtype t
  else if is_binary s then is_binary t
  else false.

(* F&O 19.1: for each source type the list of target types marked Y or M *)
Definition nums : list cty := [CFloat; CDouble; CDecimal; CInteger].
Definition strs : list cty := [CUntyped; CString].
Definition table (s : cty) : list cty :=
  match s with
  | CUntyped | CString => all_cty
  | CFloat | CDouble | CDecimal | CInteger => strs ++ nums ++ [CBoolean]
  | CDuration | CYM | CDT => strs ++ [CDuration; CYM; CDT]
  | CDateTime => strs ++ [CDateTime; CTime; CDate; CGYearMonth; CGYear; CGMonthDay; CGDay; CGMonth]
  | CTime => strs ++ [CTime]
  | CDate => strs ++ [CDateTime; CDate; CGYearMonth; CGYear; CGMonthDay; CGDay; CGMonth]
  | CGYearMonth => strs ++ [CGYearMonth] | CGYear => strs ++ [CGYear] | CGMonthDay => strs ++ [CGMonthDay]
  | CGDay => strs ++ [CGDay] | CGMonth => strs ++ [CGMonth]
  | CBoolean => strs ++ nums ++ [CBoolean]
  | CBase64 | CHex => strs ++ [CBase64; CHex]
  | CAnyURI => strs ++ [CAnyURI]
  end.
Definition in_table (s t : cty) : bool := existsb (cty_eqb t) (table s).

Definition run_cast (s t : Z) : Z :=
  if castable (nth (Z.to_nat s) all_cty CString) (nth (Z.to_nat t) all_cty CString) then 1%Z else 0%Z.
