From Coq Require Import ZArith List Bool Lia Decimal DecimalZ DecimalPos ZifyBool.
From EP Require Import Gen.C10Tables C10.Model.
Import ListNotations.
Open Scope Z_scope.
Ltac Zify.zify_post_hook ::= Z.to_euclidean_division_equations.

(* ---- integers ---- *)
Lemma chars_uint_chars : forall u, chars_uint (uint_chars u) = Some u.
Proof. induction u; cbn [uint_chars chars_uint]; try rewrite IHu; reflexivity. Qed.
Lemma uint_chars_digits : forall u, forallb is_digit (uint_chars u) = true.
Proof. induction u; cbn [uint_chars forallb]; try rewrite IHu; reflexivity. Qed.
Lemma uint_chars_nonnil : forall u, u <> Nil -> uint_chars u <> [].
Proof. intros u H. destruct u; cbn; congruence. Qed.
Lemma uint_chars_head : forall u, match uint_chars u with 43 :: _ | 45 :: _ => False | _ => True end.
Proof. destruct u; cbn; exact I. Qed.

Lemma digits1_uint : forall u, u <> Nil -> digits1 (uint_chars u) = true.
Proof.
  intros u H. unfold digits1. rewrite uint_chars_digits. destruct (uint_chars u) eqn:E; [|reflexivity].
  exfalso. apply (uint_chars_nonnil u H). exact E.
Qed.
Lemma to_int_nonnil : forall z, match Z.to_int z with Pos u | Neg u => u <> Nil end.
Proof. intros [|p|p]; cbn; [discriminate|apply DecimalPos.Unsigned.to_uint_nonnil|apply DecimalPos.Unsigned.to_uint_nonnil]. Qed.

Lemma strip_sign_uint : forall u, strip_sign (uint_chars u) = uint_chars u.
Proof. destruct u; reflexivity. Qed.

Lemma print_int_lex : forall z, lex_integer (print_int z) = true.
Proof.
  intros z. unfold print_int, lex_integer. assert (N := to_int_nonnil z). destruct (Z.to_int z) as [u|u].
  - rewrite strip_sign_uint. apply digits1_uint. exact N.
  - cbn [strip_sign]. apply digits1_uint. exact N.
Qed.
Lemma print_int_value : forall z, int_value (print_int z) = Some z.
Proof.
  intros z. unfold int_value. rewrite print_int_lex. unfold print_int.
  assert (E := DecimalZ.of_to z). destruct (Z.to_int z) as [u|u].
  - assert (H := uint_chars_head u). destruct (uint_chars u) as [|c r] eqn:U.
    + rewrite <- U, chars_uint_chars. cbn. f_equal. exact E.
    + assert (C : chars_uint (c :: r) = Some u) by (rewrite <- U; apply chars_uint_chars).
      destruct (Z.eq_dec c 45) as [->|N45]; [contradiction|]. destruct (Z.eq_dec c 43) as [->|N43]; [contradiction|].
      assert (G : forall (A : Type) (a b d : A), match c with 45 => a | 43 => b | _ => d end = d).
      { intros. destruct c as [|p|p]; try reflexivity;
          do 7 (try (destruct p as [p|p|]; try reflexivity)); congruence. }
      rewrite G. rewrite C. cbn. f_equal. exact E.
  - rewrite chars_uint_chars. cbn [option_map]. f_equal. exact E.
Qed.

Lemma bounds_table : int_bounds = spec_bounds.
Proof. vm_compute. reflexivity. Qed.

(* ---- hexBinary ---- *)
Lemma hexv_hexd : forall n, 0 <= n < 16 -> hexv (hexd n) = Some n.
Proof.
  intros n H.
  assert (C : n = 0 \/ n = 1 \/ n = 2 \/ n = 3 \/ n = 4 \/ n = 5 \/ n = 6 \/ n = 7 \/ n = 8 \/ n = 9 \/ n = 10 \/ n = 11 \/
              n = 12 \/ n = 13 \/ n = 14 \/ n = 15) by lia.
  repeat (destruct C as [->|C]; [reflexivity|]). subst. reflexivity.
Qed.
Lemma hex_roundtrip : forall bs, Forall byte bs -> dec_hex (enc_hex bs) = Some bs.
Proof.
  induction bs as [|b r IH]; intros H; [reflexivity|]. inversion H as [|? ? Hb Hr]; subst. unfold byte in Hb.
  cbn [enc_hex dec_hex]. rewrite !hexv_hexd by lia. rewrite (IH Hr). f_equal. f_equal. lia.
Qed.
Lemma enc_hex_lex : forall bs, Forall byte bs -> lex_hex (enc_hex bs) = true.
Proof.
  intros bs H. unfold lex_hex. apply andb_true_iff. split.
  - induction H as [|b r Hb Hr IH]; [reflexivity|]. unfold byte in Hb. cbn [enc_hex forallb]. rewrite IH.
    assert (X : forall n, 0 <= n < 16 -> is_hex (hexd n) = true).
    { intros n Hn. assert (V := hexv_hexd n Hn). unfold hexv in V. unfold is_hex.
      destruct (is_digit (hexd n)); [reflexivity|]. destruct ((65 <=? hexd n) && (hexd n <=? 70)); [reflexivity|].
      destruct ((97 <=? hexd n) && (hexd n <=? 102)); [reflexivity|discriminate]. }
    rewrite !X by lia. reflexivity.
  - induction bs as [|b r IH]; [reflexivity|]. inversion H; subst. cbn [enc_hex length]. cbn [Nat.even]. apply IH. assumption.
Qed.

(* ---- base64Binary ---- *)
Lemma b64v_b64c : forall n, 0 <= n < 64 -> b64v (b64c n) = Some n /\ (b64c n =? 61) = false.
Proof.
  intros n H.
  assert (C : exists k : nat, (k < 64)%nat /\ n = Z.of_nat k) by (exists (Z.to_nat n); lia).
  destruct C as (k & Hk & ->). clear H.
  do 64 (destruct k as [|k]; [vm_compute; split; reflexivity|]). lia.
Qed.

Lemma list_ind3 : forall (P : list Z -> Prop), P [] -> (forall a, P [a]) -> (forall a b, P [a; b]) ->
  (forall a b c r, P r -> P (a :: b :: c :: r)) -> forall l, P l.
Proof.
  intros P H0 H1 H2 H3. fix IH 1. intros [|a [|b [|c r]]]; [exact H0|apply H1|apply H2|apply H3; apply IH].
Qed.

Lemma b64_roundtrip : forall bs, Forall byte bs -> dec64 (enc64 bs) = Some bs.
Proof.
  induction bs as [|a|a b|a b c r IH] using list_ind3; intros H.
  - reflexivity.
  - inversion H as [|? ? Ha _]; subst. unfold byte in Ha. cbn [enc64 dec64].
    destruct (b64v_b64c (a / 4)) as (V1 & _); [lia|]. destruct (b64v_b64c (a mod 4 * 16)) as (V2 & _); [lia|].
    change (61 =? 61) with true. cbn iota. rewrite V1, V2.
    replace (a mod 4 * 16 mod 16 =? 0) with true by lia. f_equal. f_equal. lia.
  - inversion H as [|? ? Ha H']; subst. inversion H' as [|? ? Hb _]; subst. unfold byte in Ha, Hb. cbn [enc64 dec64].
    destruct (b64v_b64c (a / 4)) as (V1 & _); [lia|]. destruct (b64v_b64c (a mod 4 * 16 + b / 16)) as (V2 & _); [lia|].
    destruct (b64v_b64c (b mod 16 * 4)) as (V3 & N3); [lia|].
    change (61 =? 61) with true. cbn iota. rewrite N3, V1, V2, V3.
    replace (b mod 16 * 4 mod 4 =? 0) with true by lia. f_equal. f_equal; [lia|]. f_equal. lia.
  - inversion H as [|? ? Ha H']; subst. inversion H' as [|? ? Hb H'']; subst. inversion H'' as [|? ? Hc Hr]; subst.
    unfold byte in Ha, Hb, Hc. cbn [enc64 dec64].
    destruct (b64v_b64c (a / 4)) as (V1 & _); [lia|]. destruct (b64v_b64c (a mod 4 * 16 + b / 16)) as (V2 & _); [lia|].
    destruct (b64v_b64c (b mod 16 * 4 + c / 64)) as (V3 & _); [lia|]. destruct (b64v_b64c (c mod 64)) as (V4 & N4); [lia|].
    rewrite N4, V1, V2, V3, V4, (IH Hr). f_equal. f_equal; [lia|]. f_equal; [lia|]. f_equal. lia.
Qed.
