(* C10: lexical spaces of the date, time and duration types (XSD part 2, 3.3.6 - 3.3.16 / 3.4.26 - 3.4.27) as
   recognisers over code point lists that return the fields of the value.  v11 = the XSD 1.1 year numbering (0000 and
   -0000 allowed, astronomical years); XSD 1.0 has no year zero (-0001 is the leap year 1 BCE).  NO proofs here. *)
From Coq Require Import ZArith List Bool.
From EP Require Import Common.PyCalendar C10.Model.
Import ListNotations.
Open Scope Z_scope.

Fixpoint span_digits (s : str) : str * str :=
  match s with
  | c :: r => if is_digit c then let '(a, b) := span_digits r in (c :: a, b) else ([], s)
  | [] => ([], [])
  end.
Fixpoint dval (s : str) (acc : Z) : Z := match s with [] => acc | c :: r => dval r (acc * 10 + (c - 48)) end.
Definition num (s : str) : Z := dval s 0.
(* exactly two digits *)
Definition two (s : str) : option (Z * str) :=
  match s with
  | a :: b :: r => if is_digit a && is_digit b then Some ((a - 48) * 10 + (b - 48), r) else None
  | _ => None
  end.
Definition expect (c : Z) (s : str) : option str :=
  match s with x :: r => if x =? c then Some r else None | [] => None end.

(* timezone: absent | Z | (+|-)hh:mm up to 14:00; minutes east of UTC *)
Definition lex_tz (s : str) : option (option Z) :=
  match s with
  | [] => Some None
  | [90] => Some (Some 0)
  | sg :: r =>
      if (sg =? 43) || (sg =? 45) then
        match two r with
        | Some (h, r1) =>
            match expect 58 r1 with
            | Some r2 =>
                match two r2 with
                | Some (m, []) =>
                    if ((h <=? 13) && (m <=? 59)) || ((h =? 14) && (m =? 0))
                    then Some (Some ((if sg =? 45 then -1 else 1) * (h * 60 + m))) else None
                | _ => None
                end
            | None => None
            end
        | None => None
        end
      else None
  end.

Definition strip_neg (s : str) : bool * str := match s with 45 :: r => (true, r) | _ => (false, s) end.
(* year fragment: optional '-', at least four digits, no leading zero when there are more than four *)
Definition lex_year (v11 : bool) (s : str) : option (Z * str) :=
  let '(neg, r) := strip_neg s in
  let '(ds, rest) := span_digits r in
  if (length ds <? 4)%nat then None
  else if (4 <? length ds)%nat && (hd 0 ds =? 48) then None
  else let y := num ds in
       if negb v11 && (y =? 0) then None else Some ((if neg then - y else y), rest).
Definition astro_of (v11 : bool) (y : Z) : Z := if v11 then y else if y >? 0 then y else y + 1.
Definition month_days (a m : Z) : Z :=
  if m =? 2 then (if isleap a then 29 else 28)
  else if (m =? 4) || (m =? 6) || (m =? 9) || (m =? 11) then 30 else 31.

Definition lex_date_part (v11 : bool) (s : str) : option (Z * Z * Z * str) :=
  match lex_year v11 s with
  | Some (y, r) =>
      match expect 45 r with
      | Some r1 =>
          match two r1 with
          | Some (m, r2) =>
              match expect 45 r2 with
              | Some r3 =>
                  match two r3 with
                  | Some (d, r4) =>
                      if (1 <=? m) && (m <=? 12) && (1 <=? d) && (d <=? month_days (astro_of v11 y) m)
                      then Some (y, m, d, r4) else None
                  | None => None
                  end
              | None => None
              end
          | None => None
          end
      | None => None
      end
  | None => None
  end.
(* the first six fraction digits as microseconds *)
Fixpoint micro_of_frac (s : str) (k : nat) : Z :=
  match k with
  | O => 0
  | S k' => match s with c :: r => (c - 48) * 10 ^ Z.of_nat k' + micro_of_frac r k' | [] => 0 end
  end.
(* hh:mm:ss(.f+)? - 24:00:00 with a zero fraction is the end of the day *)
Definition lex_tod (s : str) : option (Z * Z * Z * Z * str) :=
  match two s with
  | Some (h, r1) =>
      match expect 58 r1 with
      | Some r2 =>
          match two r2 with
          | Some (mi, r3) =>
              match expect 58 r3 with
              | Some r4 =>
                  match two r4 with
                  | Some (sec, r5) =>
                      let '(fr, rest, fok) :=
                        match r5 with
                        | 46 :: r6 => let '(ds, r7) := span_digits r6 in (ds, r7, negb (match ds with [] => true | _ => false end))
                        | _ => ([], r5, true)
                        end in
                      if negb fok then None
                      else if ((h <=? 23) && (mi <=? 59) && (sec <=? 59)) ||
                              ((h =? 24) && (mi =? 0) && (sec =? 0) && forallb (Z.eqb 48) fr)
                           then Some (h, mi, sec, micro_of_frac fr 6, rest) else None
                  | None => None
                  end
              | None => None
              end
          | None => None
          end
      | None => None
      end
  | None => None
  end.

Definition otz (t : option Z) : Z := match t with Some z => z | None => 9999 end.
(* the recognisers return [] for a string outside the lexical space, otherwise 1 :: fields *)
Definition lex_date (v11 : bool) (s : str) : list Z :=
  match lex_date_part v11 s with
  | Some (y, m, d, r) => match lex_tz r with Some t => [1; y; m; d; otz t] | None => [] end
  | None => []
  end.
Definition lex_dateTime (v11 : bool) (s : str) : list Z :=
  match lex_date_part v11 s with
  | Some (y, m, d, r) =>
      match expect 84 r with
      | Some r1 =>
          match lex_tod r1 with
          | Some (h, mi, sec, us, r2) => match lex_tz r2 with Some t => [1; y; m; d; h; mi; sec; us; otz t] | None => [] end
          | None => []
          end
      | None => []
      end
  | None => []
  end.
Definition lex_time (s : str) : list Z :=
  match lex_tod s with
  | Some (h, mi, sec, us, r) => match lex_tz r with Some t => [1; h; mi; sec; us; otz t] | None => [] end
  | None => []
  end.
Definition lex_gYear (v11 : bool) (s : str) : list Z :=
  match lex_year v11 s with
  | Some (y, r) => match lex_tz r with Some t => [1; y; otz t] | None => [] end
  | None => []
  end.
Definition lex_gYearMonth (v11 : bool) (s : str) : list Z :=
  match lex_year v11 s with
  | Some (y, r) =>
      match expect 45 r with
      | Some r1 =>
          match two r1 with
          | Some (m, r2) => if (1 <=? m) && (m <=? 12) then match lex_tz r2 with Some t => [1; y; m; otz t] | None => [] end else []
          | None => []
          end
      | None => []
      end
  | None => []
  end.
Definition dashes (n : nat) (s : str) : option str :=
  (fix go n s := match n with O => Some s | S k => match expect 45 s with Some r => go k r | None => None end end) n s.
Definition lex_gMonth (s : str) : list Z :=
  match dashes 2 s with
  | Some r => match two r with
              | Some (m, r1) => if (1 <=? m) && (m <=? 12) then match lex_tz r1 with Some t => [1; m; otz t] | None => [] end else []
              | None => [] end
  | None => []
  end.
Definition lex_gDay (s : str) : list Z :=
  match dashes 3 s with
  | Some r => match two r with
              | Some (d, r1) => if (1 <=? d) && (d <=? 31) then match lex_tz r1 with Some t => [1; d; otz t] | None => [] end else []
              | None => [] end
  | None => []
  end.
Definition lex_gMonthDay (s : str) : list Z :=
  match dashes 2 s with
  | Some r =>
      match two r with
      | Some (m, r1) =>
          match expect 45 r1 with
          | Some r2 =>
              match two r2 with
              | Some (d, r3) =>
                  if (1 <=? m) && (m <=? 12) && (1 <=? d) && (d <=? month_days 4 m)
                  then match lex_tz r3 with Some t => [1; m; d; otz t] | None => [] end else []
              | None => []
              end
          | None => []
          end
      | None => []
      end
  | None => []
  end.

(* ---- durations: -?P(nY)?(nM)?(nD)?(T(nH)?(nM)?(n(.n)?S)?)? with at least one fragment, and one after T ---- *)
(* an optional fragment "digits designator" *)
Definition frag (c : Z) (s : str) : option Z * str :=
  let '(ds, r) := span_digits s in
  match ds, r with
  | _ :: _, x :: r' => if x =? c then (Some (num ds), r') else (None, s)
  | _, _ => (None, s)
  end.
(* the seconds fragment: digits (. digits+)? S ; value in microseconds (first six fraction digits) *)
Definition frag_seconds (s : str) : option Z * str * bool :=
  let '(ds, r) := span_digits s in
  match ds with
  | [] => (None, s, true)
  | _ =>
      match r with
      | 83 :: r' => (Some (num ds * 1000000), r', true)
      | 46 :: r1 =>
          let '(fs, r2) := span_digits r1 in
          match fs, r2 with
          | _ :: _, 83 :: r' => (Some (num ds * 1000000 + micro_of_frac fs 6), r', true)
          | _, _ => (None, s, false)
          end
      | _ => (None, s, true)
      end
  end.
Definition oz0 (o : option Z) : Z := match o with Some z => z | None => 0 end.
Definition isS (o : option Z) : bool := match o with Some _ => true | None => false end.
(* kind 0 duration | 1 dayTimeDuration (no Y, M fragments) | 2 yearMonthDuration (no D fragment, no T part).
   Result: [] or [1; months; microseconds] (both signed) *)
Definition lex_duration (kind : Z) (s : str) : list Z :=
  let '(neg, r) := strip_neg s in
  match expect 80 r with
  | None => []
  | Some r0 =>
      let '(y, r1) := frag 89 r0 in
      let '(mo, r2) := frag 77 r1 in
      let '(d, r3) := frag 68 r2 in
      let '(h, mi, sec, rest, tok) :=
        match r3 with
        | 84 :: r4 =>
            let '(h, r5) := frag 72 r4 in
            let '(mi, r6) := frag 77 r5 in
            let '(sec, r7, fok) := frag_seconds r6 in
            (h, mi, sec, r7, fok && (isS h || isS mi || isS sec))
        | _ => (None, None, None, r3, true)
        end in
      if negb tok then []
      else match rest with
           | _ :: _ => []
           | [] =>
               if negb (isS y || isS mo || isS d || isS h || isS mi || isS sec) then []
               else if (kind =? 1) && (isS y || isS mo) then []
               else if (kind =? 2) && (isS d || isS h || isS mi || isS sec) then []
               else let months := oz0 y * 12 + oz0 mo in
                    let us := ((oz0 d * 24 + oz0 h) * 60 + oz0 mi) * 60000000 + oz0 sec in
                    [1; (if neg then - months else months); (if neg then - us else us)]
           end
  end.

(* ---- canonical printing of the fixed-width fields ---- *)
Definition print_two (n : Z) : str := [48 + n / 10; 48 + n mod 10].
Definition print_four (n : Z) : str := [48 + n / 1000; 48 + (n / 100) mod 10; 48 + (n / 10) mod 10; 48 + n mod 10].
Definition print_year4 (y : Z) : str := if y <? 0 then 45 :: print_four (- y) else print_four y.
Definition print_tz (t : option Z) : str :=
  match t with
  | None => []
  | Some z => if z =? 0 then [90]
              else (if z <? 0 then 45 else 43) :: print_two (Z.abs z / 60) ++ [58] ++ print_two (Z.abs z mod 60)
  end.
Definition print_date (y m d : Z) (t : option Z) : str :=
  print_year4 y ++ [45] ++ print_two m ++ [45] ++ print_two d ++ print_tz t.
Definition print_time (h mi sec : Z) (t : option Z) : str :=
  print_two h ++ [58] ++ print_two mi ++ [58] ++ print_two sec ++ print_tz t.
Definition print_dateTime (y m d h mi sec : Z) (t : option Z) : str :=
  print_year4 y ++ [45] ++ print_two m ++ [45] ++ print_two d ++ [84] ++ print_time h mi sec t.
