(* C10: the whiteSpace facet "collapse" of XSD (part 2, 4.3.6): the white space characters are #x20, #x9, #xA, #xD and
   no other; leading and trailing white space is removed and every inner run becomes one #x20.  NO proofs here. *)
From Coq Require Import ZArith List Bool.
From EP Require Import C10.Model.
Import ListNotations.
Open Scope Z_scope.

Definition is_ws (c : Z) : bool := (c =? 32) || (c =? 9) || (c =? 10) || (c =? 13).
(* pending: white space was seen since the last emitted character *)
Fixpoint collapse_aux (s : str) (pending started : bool) : str :=
  match s with
  | [] => []
  | c :: r => if is_ws c then collapse_aux r started started
              else (if pending then [32] else []) ++ c :: collapse_aux r false true
  end.
Definition collapse (s : str) : str := collapse_aux s false false.
(* no leading or trailing white space, no two adjacent white space characters, #x20 the only one *)
Fixpoint collapsed_from (prev_ws : bool) (s : str) : bool :=
  match s with
  | [] => negb prev_ws
  | c :: r => if is_ws c then negb prev_ws && (c =? 32) && collapsed_from true r else collapsed_from false r
  end.
Definition collapsed (s : str) : bool := match s with [] => true | _ => collapsed_from true s end.
