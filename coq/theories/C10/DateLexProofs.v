(* C10 lexical spaces of date / time types: proofs *)
From Coq Require Import ZArith List Bool Lia ZifyBool.
From EP Require Import Common.PyCalendar C10.Model C10.DateLex.
Import ListNotations.
Ltac Zify.zify_post_hook ::= Z.to_euclidean_division_equations.
Open Scope Z_scope.

Lemma digit_char : forall k, 0 <= k <= 9 -> is_digit (48 + k) = true.
Proof. intros k H. unfold is_digit. lia. Qed.

Lemma two_print_two : forall n r, 0 <= n < 100 -> two (print_two n ++ r) = Some (n, r).
Proof.
  intros n r H. unfold print_two. cbn [app]. unfold two.
  rewrite (digit_char (n / 10)) by lia. rewrite (digit_char (n mod 10)) by lia. cbn [andb].
  f_equal. f_equal. lia.
Qed.

Definition tz_ok (t : option Z) : Prop := match t with None => True | Some z => -840 <= z <= 840 end.

Lemma lex_tz_print : forall t, tz_ok t -> lex_tz (print_tz t) = Some t.
Proof.
  intros [z|] H; [|reflexivity]. cbn in H. unfold print_tz.
  destruct (z =? 0) eqn:E0; [assert (z = 0) by lia; subst z; reflexivity|].
  assert (Hh : 0 <= Z.abs z / 60 < 100) by lia. assert (Hm : 0 <= Z.abs z mod 60 < 100) by lia.
  destruct (z <? 0) eqn:En.
  - unfold lex_tz. cbn [app]. change (45 =? 43) with false. change (45 =? 45) with true. cbn [orb].
    unfold print_two at 1. cbn [app].
    change (two (48 + Z.abs z / 60 / 10 :: 48 + (Z.abs z / 60) mod 10 :: 58 :: print_two (Z.abs z mod 60)))
      with (two (print_two (Z.abs z / 60) ++ 58 :: print_two (Z.abs z mod 60))).
    rewrite (two_print_two _ _ Hh). cbn [expect]. change (58 =? 58) with true. cbv iota.
    rewrite <- (app_nil_r (print_two (Z.abs z mod 60))). rewrite (two_print_two _ _ Hm).
    destruct ((Z.abs z / 60 <=? 13) && (Z.abs z mod 60 <=? 59) || (Z.abs z / 60 =? 14) && (Z.abs z mod 60 =? 0)) eqn:C; [|lia].
    f_equal. f_equal. lia.
  - unfold lex_tz. cbn [app]. change (43 =? 43) with true. cbn [orb].
    unfold print_two at 1. cbn [app].
    change (two (48 + Z.abs z / 60 / 10 :: 48 + (Z.abs z / 60) mod 10 :: 58 :: print_two (Z.abs z mod 60)))
      with (two (print_two (Z.abs z / 60) ++ 58 :: print_two (Z.abs z mod 60))).
    rewrite (two_print_two _ _ Hh). cbn [expect]. change (58 =? 58) with true. cbv iota.
    rewrite <- (app_nil_r (print_two (Z.abs z mod 60))). rewrite (two_print_two _ _ Hm).
    destruct ((Z.abs z / 60 <=? 13) && (Z.abs z mod 60 <=? 59) || (Z.abs z / 60 =? 14) && (Z.abs z mod 60 =? 0)) eqn:C; [|lia].
    change (43 =? 45) with false. cbv iota. f_equal. f_equal. lia.
Qed.

Lemma span_four : forall n c r, 0 <= n <= 9999 -> is_digit c = false ->
  span_digits (print_four n ++ c :: r) = (print_four n, c :: r).
Proof.
  intros n c r H Hc. unfold print_four. cbn [app span_digits].
  rewrite (digit_char (n / 1000)) by lia. rewrite (digit_char ((n / 100) mod 10)) by lia.
  rewrite (digit_char ((n / 10) mod 10)) by lia. rewrite (digit_char (n mod 10)) by lia.
  rewrite Hc. reflexivity.
Qed.
Lemma num_four : forall n, 0 <= n <= 9999 -> num (print_four n) = n.
Proof. intros n H. unfold num, print_four. cbn [dval]. lia. Qed.

Lemma strip_neg_other : forall c s, c <> 45 -> strip_neg (c :: s) = (false, c :: s).
Proof.
  intros c s H. unfold strip_neg. destruct c as [|p|p]; try reflexivity.
  do 6 (destruct p as [p|p|]; try reflexivity). contradiction.
Qed.

Lemma lex_year_print4 : forall v11 y c r, 1 <= Z.abs y <= 9999 -> is_digit c = false ->
  lex_year v11 (print_year4 y ++ c :: r) = Some (y, c :: r).
Proof.
  intros v11 y c r H Hc. unfold print_year4, lex_year. destruct (y <? 0) eqn:E.
  - cbn [app strip_neg]. rewrite (span_four (- y) c r) by (lia || exact Hc).
    change (length (print_four (- y))) with 4%nat. cbn [Nat.ltb Nat.leb andb].
    rewrite num_four by lia. destruct (negb v11 && (- y =? 0)) eqn:Z0; [lia|]. f_equal. f_equal. lia.
  - assert (Hd : print_four y ++ c :: r = (48 + y / 1000) :: ((48 + (y / 100) mod 10 :: 48 + (y / 10) mod 10 :: [48 + y mod 10]) ++ c :: r))
      by reflexivity.
    rewrite Hd. rewrite strip_neg_other by lia. rewrite <- Hd.
    rewrite (span_four y c r) by (lia || exact Hc).
    change (length (print_four y)) with 4%nat. cbn [Nat.ltb Nat.leb andb].
    rewrite num_four by lia. destruct (negb v11 && (y =? 0)) eqn:Z0; [lia|]. reflexivity.
Qed.

Definition date_ok (v11 : bool) (y m d : Z) : Prop :=
  1 <= Z.abs y <= 9999 /\ 1 <= m <= 12 /\ 1 <= d <= month_days (astro_of v11 y) m.

Lemma month_days_le : forall a m, month_days a m <= 31.
Proof. intros a m. unfold month_days. destruct (m =? 2); [destruct (isleap a); lia|]. destruct ((m =? 4) || (m =? 6) || (m =? 9) || (m =? 11)); lia. Qed.

Lemma lex_date_part_print : forall v11 y m d rest, date_ok v11 y m d ->
  lex_date_part v11 (print_year4 y ++ [45] ++ print_two m ++ [45] ++ print_two d ++ rest) = Some (y, m, d, rest).
Proof.
  intros v11 y m d rest (Hy & Hm & Hd). pose proof (month_days_le (astro_of v11 y) m) as Hl.
  unfold lex_date_part. cbn [app].
  rewrite (lex_year_print4 v11 y 45 _ Hy eq_refl). cbn [expect]. change (45 =? 45) with true. cbv iota.
  rewrite two_print_two by lia. cbn [expect]. change (45 =? 45) with true. cbv iota.
  rewrite two_print_two by lia.
  destruct ((1 <=? m) && (m <=? 12) && (1 <=? d) && (d <=? month_days (astro_of v11 y) m)) eqn:C; [reflexivity|lia].
Qed.

Lemma lex_date_print : forall v11 y m d t, date_ok v11 y m d -> tz_ok t ->
  lex_date v11 (print_date y m d t) = [1; y; m; d; otz t].
Proof.
  intros v11 y m d t H Ht. unfold lex_date, print_date.
  rewrite (lex_date_part_print v11 y m d (print_tz t) H). rewrite (lex_tz_print t Ht). reflexivity.
Qed.

Definition tod_ok (h mi sec : Z) : Prop := 0 <= h <= 23 /\ 0 <= mi <= 59 /\ 0 <= sec <= 59.

Lemma print_tz_head : forall t, match print_tz t with 46 :: _ => False | _ => True end.
Proof.
  intros [z|]; [|exact I]. unfold print_tz. destruct (z =? 0); [exact I|]. destruct (z <? 0); exact I.
Qed.

Lemma lex_tod_print : forall h mi sec t, tod_ok h mi sec ->
  lex_tod (print_two h ++ [58] ++ print_two mi ++ [58] ++ print_two sec ++ print_tz t) = Some (h, mi, sec, 0, print_tz t).
Proof.
  intros h mi sec t (Hh & Hm & Hs). unfold lex_tod.
  rewrite two_print_two by lia. cbn [app expect]. change (58 =? 58) with true. cbv iota.
  rewrite two_print_two by lia. cbn [app expect]. change (58 =? 58) with true. cbv iota.
  rewrite two_print_two by lia.
  pose proof (print_tz_head t) as Hp.
  assert (E : (let '(fr, rest, fok) :=
                 match print_tz t with
                 | 46 :: r6 => let '(ds, r7) := span_digits r6 in (ds, r7, negb match ds with [] => true | _ :: _ => false end)
                 | _ => ([], print_tz t, true)
                 end in (fr, rest, fok)) = ([], print_tz t, true)).
  { destruct (print_tz t) as [|c r]; [reflexivity|].
    destruct c as [|p|p]; try reflexivity. do 6 (destruct p as [p|p|]; try reflexivity). contradiction. }
  destruct (print_tz t) as [|c r] eqn:P.
  - cbn [negb forallb micro_of_frac]. destruct ((h <=? 23) && (mi <=? 59) && (sec <=? 59)) eqn:C; [reflexivity|lia].
  - destruct c as [|p|p]; try (cbn [negb forallb micro_of_frac]; destruct ((h <=? 23) && (mi <=? 59) && (sec <=? 59)) eqn:C; [reflexivity|lia]).
    do 6 (destruct p as [p|p|]; try (cbn [negb forallb micro_of_frac]; destruct ((h <=? 23) && (mi <=? 59) && (sec <=? 59)) eqn:C; [reflexivity|lia])).
    contradiction.
Qed.

Lemma lex_time_print : forall h mi sec t, tod_ok h mi sec -> tz_ok t ->
  lex_time (print_time h mi sec t) = [1; h; mi; sec; 0; otz t].
Proof.
  intros h mi sec t H Ht. unfold lex_time, print_time. rewrite (lex_tod_print h mi sec t H).
  rewrite (lex_tz_print t Ht). reflexivity.
Qed.

Lemma lex_dateTime_print : forall v11 y m d h mi sec t, date_ok v11 y m d -> tod_ok h mi sec -> tz_ok t ->
  lex_dateTime v11 (print_dateTime y m d h mi sec t) = [1; y; m; d; h; mi; sec; 0; otz t].
Proof.
  intros v11 y m d h mi sec t H Ho Ht. unfold lex_dateTime, print_dateTime, print_time.
  change (print_year4 y ++ [45] ++ print_two m ++ [45] ++ print_two d ++ [84] ++ print_two h ++ [58] ++ print_two mi ++ [58] ++ print_two sec ++ print_tz t)
    with (print_year4 y ++ [45] ++ print_two m ++ [45] ++ print_two d ++ (84 :: (print_two h ++ [58] ++ print_two mi ++ [58] ++ print_two sec ++ print_tz t))).
  rewrite (lex_date_part_print v11 y m d _ H). cbn [expect]. change (84 =? 84) with true. cbv iota.
  rewrite (lex_tod_print h mi sec t Ho). rewrite (lex_tz_print t Ht). reflexivity.
Qed.

(* ---- accepted strings denote values in the value space ---- *)
Lemma two_range : forall s n r, two s = Some (n, r) -> 0 <= n <= 99.
Proof.
  intros s n r H. unfold two in H. destruct s as [|a [|b s']]; try discriminate.
  destruct (is_digit a && is_digit b) eqn:E; [|discriminate]. injection H as <- _. unfold is_digit in E. lia.
Qed.
Lemma lex_tz_range : forall s z, lex_tz s = Some (Some z) -> -840 <= z <= 840.
Proof.
  intros s z H. unfold lex_tz in H. destruct s as [|sg r]; [discriminate|].
  destruct r as [|c r'].
  - destruct sg as [|p|p]; try discriminate. do 7 (destruct p as [p|p|]; try discriminate). injection H as <-. lia.
  - assert (H' : (if (sg =? 43) || (sg =? 45) then
                   match two (c :: r') with
                   | Some (h, r1) => match expect 58 r1 with
                       | Some r2 => match two r2 with
                           | Some (m, []) => if (h <=? 13) && (m <=? 59) || (h =? 14) && (m =? 0)
                                             then Some (Some ((if sg =? 45 then -1 else 1) * (h * 60 + m))) else None
                           | _ => None end
                       | None => None end
                   | None => None end else None) = Some (Some z)).
    { destruct sg as [|p|p]; try exact H. do 7 (destruct p as [p|p|]; try exact H). }
    clear H. destruct ((sg =? 43) || (sg =? 45)); [|discriminate].
    destruct (two (c :: r')) as [[h r1]|] eqn:T1; [|discriminate].
    destruct (expect 58 r1) as [r2|]; [|discriminate].
    destruct (two r2) as [[m [|x r3]]|] eqn:T2; try discriminate.
    destruct ((h <=? 13) && (m <=? 59) || (h =? 14) && (m =? 0)) eqn:C; [|discriminate].
    injection H' as <-. pose proof (two_range _ _ _ T1). pose proof (two_range _ _ _ T2).
    destruct (sg =? 45); lia.
Qed.
Lemma lex_date_part_valid : forall v11 s y m d r, lex_date_part v11 s = Some (y, m, d, r) ->
  1 <= m <= 12 /\ 1 <= d <= month_days (astro_of v11 y) m /\ (v11 = false -> y <> 0).
Proof.
  intros v11 s y m d r H. unfold lex_date_part in H.
  destruct (lex_year v11 s) as [[y0 r0]|] eqn:Y; [|discriminate].
  destruct (expect 45 r0) as [r1|]; [|discriminate]. destruct (two r1) as [[m0 r2]|]; [|discriminate].
  destruct (expect 45 r2) as [r3|]; [|discriminate]. destruct (two r3) as [[d0 r4]|]; [|discriminate].
  destruct ((1 <=? m0) && (m0 <=? 12) && (1 <=? d0) && (d0 <=? month_days (astro_of v11 y0) m0)) eqn:C; [|discriminate].
  injection H as <- <- <- <-. split; [lia|]. split; [lia|].
  intros ->. unfold lex_year in Y. destruct (strip_neg s) as [neg r']. destruct (span_digits r') as [ds rest].
  destruct ((length ds <? 4)%nat); [discriminate|]. destruct ((4 <? length ds)%nat && (hd 0 ds =? 48)); [discriminate|].
  cbn [negb andb] in Y. destruct (num ds =? 0) eqn:N0; [discriminate|]. injection Y as <- _. destruct neg; lia.
Qed.
