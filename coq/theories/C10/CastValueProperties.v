(* C10 property theorems: value-level numeric / boolean casts *)
From Coq Require Import ZArith List Bool Lia.
From EP Require Import C15.Keys C10.CastValue.
Import ListNotations.
Open Scope Z_scope.

(* casting to xs:integer truncates toward zero: value = result + a fraction of magnitude < 1 with the sign of the value *)
Theorem C10_cast_integer_truncates : forall n d z, cast_integer (NFin n d) = Some z ->
  exists r, n = Zpos d * z + r /\ Z.abs r < Zpos d /\ 0 <= r * n.
Proof.
  intros n d z H. cbn in H. injection H as <-. exists (Z.rem n (Zpos d)).
  split; [apply Z.quot_rem'|]. split.
  - pose proof (Z.rem_bound_abs n (Zpos d)) as B. lia.
  - apply Z.rem_sign_mul. lia.
Qed.
Print Assumptions C10_cast_integer_truncates.
(* the special values do not cast to xs:integer / xs:decimal (FOCA0002); finite values cast to xs:decimal exactly *)
Theorem C10_cast_special_values : forall v,
  (cast_integer v = None <-> nval_eq v v = true /\ match v with NFin _ _ => False | _ => True end) /\
  (forall w, cast_decimal v = Some w -> w = v) /\ (cast_decimal v = None <-> cast_integer v = None).
Proof.
  intros [n d| | |]; cbn; repeat split; try tauto; try discriminate; try (intros w H; congruence); intros; try discriminate;
    try (match goal with H : _ /\ False |- _ => destruct H as (_ & []) end).
Qed.
Print Assumptions C10_cast_special_values.
(* xs:boolean: false exactly for zero and NaN; boolean -> number -> boolean is the identity; an integer survives the
   round trip through xs:decimal *)
Theorem C10_cast_boolean : forall v b z,
  (cast_boolean v = false <-> (exists d, nval_eq v (NFin 0 d) = true) \/ v = NNaN) /\
  cast_boolean (of_boolean b) = b /\ cast_integer (of_boolean b) = Some (if b then 1 else 0) /\
  (forall w, cast_decimal (NFin z 1) = Some w -> cast_integer w = Some z).
Proof.
  intros v b z. split; [|split; [destruct b; reflexivity|split; [destruct b; reflexivity|]]].
  - destruct v as [n d| | |]; cbn; split.
    + intros H. left. exists 1%positive. apply negb_false_iff in H. apply Z.eqb_eq in H. subst n. reflexivity.
    + intros [(d' & H)|H]; [|discriminate]. apply Z.eqb_eq in H. apply negb_false_iff. apply Z.eqb_eq. lia.
    + intros _. right. reflexivity.
    + reflexivity.
    + discriminate.
    + intros [(d' & H)|H]; discriminate.
    + discriminate.
    + intros [(d' & H)|H]; discriminate.
  - intros w H. cbn in H. injection H as <-. cbn. rewrite Z.quot_1_r. reflexivity.
Qed.
Print Assumptions C10_cast_boolean.
Example C10_cast_value_nonvacuous :
  cast_integer (NFin (-19) 10) = Some (-1) /\ cast_integer (NFin 19 10) = Some 1 /\ cast_integer NNaN = None /\
  cast_boolean (NFin 0 7) = false /\ cast_boolean NNInf = true /\ cast_decimal NPInf = None.
Proof. repeat split; reflexivity. Qed.
