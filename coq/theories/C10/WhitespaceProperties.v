(* C10 property theorems: the whiteSpace facet collapse *)
From Coq Require Import ZArith List Bool.
From EP Require Import C10.Model C10.Whitespace C10.WhitespaceProofs.
Import ListNotations.
Open Scope Z_scope.

(* collapse keeps every character that is not one of #x20 #x9 #xA #xD, in order (a no-break space, an ideographic space,
   a form feed are content); its result has no leading, trailing or doubled white space and only #x20; it is a fixed
   point of collapse, and exactly the collapsed strings are fixed points *)
Theorem C10_whitespace_collapse : forall s,
  filter nonws (collapse s) = filter nonws s /\ collapsed (collapse s) = true /\
  collapse (collapse s) = collapse s /\ (collapsed s = true -> collapse s = s).
Proof.
  intros s. split; [apply collapse_aux_content|]. split; [apply collapse_collapsed|].
  split; [apply collapse_idempotent|apply collapse_fixed].
Qed.
Print Assumptions C10_whitespace_collapse.
Example C10_whitespace_nonvacuous :
  collapse [32; 9; 97; 10; 13; 32; 98; 12288; 32] = [97; 32; 98; 12288] /\ collapse [160; 49] = [160; 49] /\ collapse [32; 10] = [].
Proof. vm_compute. repeat split; reflexivity. Qed.
