(* C16 property theorems on partial application: "calling a partial application returns the same result as the
   equivalent direct call with the same arguments" on the reference semantics C16.Model.eval, for every program, every
   fuel and every environment. Function items are compared up to the representation of their captured environment
   (veq: same parameters, same body, environments with equivalent lookups); atomic results are equal.
   Statements only; proofs are in Equiv.v. *)
From Coq Require Import ZArith List Bool Arith Lia.
From EP Require Import C16.HOF C16.Model C16.Proofs C16.Equiv.
Import ListNotations.
Open Scope Z_scope.

(* evaluation respects the equivalence of environments: every construct of the calculus (closures, dynamic calls, partial
   application, for / let, the higher-order functions, sort) *)
Theorem C16_evaluation_respects_equivalent_bindings : forall n e d1 d2,
  env_rel d1 d2 -> res_eq (eval n e d1) (eval n e d2).
Proof. exact eval_congruence. Qed.
Print Assumptions C16_evaluation_respects_equivalent_bindings.

(* f(a, ?, c) applied to (b) against f applied to (a, b, c): partial binds the fixed values where the item is created
   (slots; cenv is the closure of f), the call binds the rest; the direct call binds all parameters in order *)
Theorem C16_partial_call_is_direct_call : forall n ps body slots cenv rest cenv' vs,
  partial ps slots cenv = Some (rest, cenv') -> length rest = length vs -> NoDup ps ->
  res_eq (apply_n n (VFun rest body cenv') vs) (apply_n n (VFun ps body cenv) (fill slots vs)).
Proof. exact partial_call_is_direct_call. Qed.
Print Assumptions C16_partial_call_is_direct_call.

(* the expression form: eval of f(slots)(args) is that application *)
Theorem C16_partial_call_expression : forall n f slots args d ps body cenv svals rest cenv' vs,
  fun_of_n n f d = Some (VFun ps body cenv) -> slot_vals n slots d = Some svals ->
  partial ps svals cenv = Some (rest, cenv') -> opt_all (map (fun a => eval (S n) a d) args) = Some vs ->
  eval (S (S n)) (ECall (EPartial f slots) args) d = apply_n (S n) (VFun rest body cenv') vs.
Proof. exact partial_call_expr. Qed.
Print Assumptions C16_partial_call_expression.

(* results without function items are equal, not only equivalent *)
Theorem C16_equivalent_atomic_results_are_equal : forall s t, seq_eq s t -> atomic s = true -> s = t.
Proof. exact seq_eq_atomic. Qed.
Print Assumptions C16_equivalent_atomic_results_are_equal.

Theorem C16_equivalence_reflexive : forall v, veq v v.
Proof. exact veq_refl. Qed.
Print Assumptions C16_equivalence_reflexive.

(* non-vacuity: let $f := function($x, $y, $z) { $x * 100 + $y * 10 + $z } return $f(1, ?, 3)(2) against $f(1, 2, 3);
   the hypotheses of C16_partial_call_is_direct_call hold for this partial application *)
Example C16_partial_call_nonvacuous :
  let body := EAdd (EAdd (EMul (EVar 1) (ELit [100])) (EMul (EVar 2) (ELit [10]))) (EVar 3) in
  partial [1%nat; 2%nat; 3%nat] [Some [VInt 1]; None; Some [VInt 3]] [] = Some ([2%nat], [(3%nat, [VInt 3]); (1%nat, [VInt 1])]) /\
  apply_n 10 (VFun [2%nat] body [(3%nat, [VInt 3]); (1%nat, [VInt 1])]) [[VInt 2]] = Some [VInt 123] /\
  apply_n 10 (VFun [1%nat; 2%nat; 3%nat] body []) (fill [Some [VInt 1]; None; Some [VInt 3]] [[VInt 2]]) = Some [VInt 123] /\
  NoDup [1%nat; 2%nat; 3%nat].
Proof.
  cbv zeta. repeat split; try reflexivity.
  repeat constructor; cbn; intuition discriminate.
Qed.
