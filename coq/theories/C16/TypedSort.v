(* C16: fn:sort on typed atomic values (C08/Typed.v): the values must belong to one ordered class (numerics with NaN
   first, strings with untypedAtomic as strings, booleans, one ordered date / time / duration / binary family), otherwise
   XPTY0004; within a class the sort is the stable insertion sort of C16/HOF.v on an order-embedding integer key.
   The key embeds the numeric order for values whose denominator divides 10 (the values the harness uses). *)
From Coq Require Import ZArith List Bool Lia.
Ltac Zify.zify_post_hook ::= Z.div_mod_to_equations.
From EP Require Import C15.Keys C08.Typed C16.HOF.
Import ListNotations.
Open Scope Z_scope.

Definition class_of (a : av) : Z :=
  match a with
  | ANum _ _ => 1 | AStr _ _ | AUntyped _ _ => 2 | ABool _ => 3 | AOrd f _ => 10 + f | AEq _ _ => 0
  end.
Definition av_key (a : av) : Z :=
  match a with
  | ANum _ (NFin n d) => n * 10 / Zpos d
  | ANum _ NNaN => - 1000000000000
  | ANum _ NNInf => - 100000000000
  | ANum _ NPInf => 100000000000
  | AStr _ s | AUntyped s _ => s
  | ABool b => if b then 1 else 0
  | AOrd _ v | AEq _ v => v
  end.
(* one ordered class (a single value needs no comparison) *)
Definition sortable (l : list av) : bool :=
  match l with
  | [] | [_] => true
  | x :: r => negb (class_of x =? 0) && forallb (fun y => class_of y =? class_of x) r
  end.
Definition sort_typed (l : list av) : option (list av) :=
  if sortable l then Some (sort av av_key l) else None.

(* the integer key is an order embedding on the numeric values with a denominator dividing 10 *)
Definition den10 (v : nval) : bool := match v with NFin _ d => (10 mod Zpos d =? 0) | _ => true end.
Lemma div10 : forall d, (10 mod Zpos d =? 0) = true -> Zpos d = 1 \/ Zpos d = 2 \/ Zpos d = 5 \/ Zpos d = 10.
Proof.
  intros d H. apply Z.eqb_eq in H.
  assert (L : Zpos d <= 10).
  { apply Z.mod_divide in H; [|lia]. apply Z.divide_pos_le in H; lia. }
  assert (C : Zpos d = 1 \/ Zpos d = 2 \/ Zpos d = 3 \/ Zpos d = 4 \/ Zpos d = 5 \/ Zpos d = 6 \/ Zpos d = 7 \/
              Zpos d = 8 \/ Zpos d = 9 \/ Zpos d = 10) by lia.
  destruct C as [C|[C|[C|[C|[C|[C|[C|[C|[C|C]]]]]]]]]; rewrite C in H; cbn in H; try discriminate; tauto.
Qed.
Lemma key_embeds_numeric_order : forall t u n1 d1 n2 d2, den10 (NFin n1 d1) = true -> den10 (NFin n2 d2) = true ->
  nval_lt (NFin n1 d1) (NFin n2 d2) = (av_key (ANum t (NFin n1 d1)) <? av_key (ANum u (NFin n2 d2))).
Proof.
  intros t u n1 d1 n2 d2 A B. cbn in A, B. cbn [av_key nval_lt].
  apply eq_iff_eq_true. rewrite !Z.ltb_lt.
  destruct (div10 d1 A) as [E1|[E1|[E1|E1]]], (div10 d2 B) as [E2|[E2|[E2|E2]]]; rewrite E1, E2; lia.
Qed.

(* correspondence: [[-9]] = XPTY0004, otherwise the positions (0-based, in the input) of the sorted items *)
Fixpoint number_from (k : Z) (l : list av) : list (Z * av) :=
  match l with [] => [] | x :: r => (k, x) :: number_from (k + 1) r end.
Definition run_sort (l : list av) : list Z :=
  if sortable l then map fst (sort (Z * av) (fun p => av_key (snd p)) (number_from 0 l)) else [-9].
