From Coq Require Import ZArith List Bool.
From EP Require Import C16.HOF C16.Model.
Import ListNotations.
Open Scope Z_scope.
(* items: integers as (0, z), booleans as (1, 0/1), function items as (2, arity) *)
Definition enc_val (v : val) : Z * Z :=
  match v with VInt z => (0, z) | VBool b => (1, if b then 1 else 0) | VFun ps _ _ => (2, Z.of_nat (length ps)) end.
Definition run (e : expr) (d : list (nat * list Z)) : Z * list (Z * Z) :=
  match eval 40 e (map (fun p => (fst p, map VInt (snd p))) d) with
  | Some s => (1, map enc_val s)
  | None => (0, [])
  end.
