(* C16 - equivalence of function items up to the representation of the captured environment, and the congruence of
   the reference semantics for it: evaluating an expression in two environments with equivalent bindings gives
   equivalent results.  Used for: the call of a partial application equals the direct call. *)
From Coq Require Import ZArith List Bool Arith Lia.
From EP Require Import C16.HOF C16.Model C16.Proofs.
Import ListNotations.

Inductive orel {X Y} (R : X -> Y -> Prop) : option X -> option Y -> Prop :=
| orel_none : orel R None None
| orel_some a b : R a b -> orel R (Some a) (Some b).

(* atomic values are equal; function items have the same parameters and body and environments with equivalent lookups *)
Inductive veq : val -> val -> Prop :=
| veq_int z : veq (VInt z) (VInt z)
| veq_bool b : veq (VBool b) (VBool b)
| veq_fun ps body e1 e2 : (forall x, orel (Forall2 veq) (lookup x e1) (lookup x e2)) -> veq (VFun ps body e1) (VFun ps body e2).
Definition seq_eq : sequence -> sequence -> Prop := Forall2 veq.
Definition res_eq : option sequence -> option sequence -> Prop := orel seq_eq.
Definition env_rel (d1 d2 : env) : Prop := forall x, res_eq (lookup x d1) (lookup x d2).

Lemma veq_refl : forall v, veq v v.
Proof.
  fix IH 1. intros [z|b|ps body e]; [constructor|constructor|].
  constructor. induction e as [|[y s] r IHe]; intros x; cbn [lookup].
  - constructor.
  - destruct (Nat.eqb y x); [|apply IHe]. constructor. induction s as [|v s IHs]; constructor; [apply IH|exact IHs].
Qed.
Lemma seq_eq_refl : forall s, seq_eq s s.
Proof. induction s; constructor; [apply veq_refl|assumption]. Qed.
Lemma env_eq_rel : forall d1 d2, env_eq d1 d2 -> env_rel d1 d2.
Proof. intros d1 d2 H x. rewrite (H x). destruct (lookup x d2); constructor. apply seq_eq_refl. Qed.

(* ---- the equations of eval, with the local definitions named ---- *)
Definition apply_n (n : nat) (f : val) (args : list sequence) : option sequence :=
  match f with
  | VFun ps body cenv => if Nat.eqb (length ps) (length args) then eval n body (bind_all ps args cenv) else None
  | _ => None
  end.
Definition fun_of_n (n : nat) (e : expr) (d : env) : option val :=
  match eval n e d with Some [VFun ps b c] => Some (VFun ps b c) | _ => None end.
Definition arith_n (op : Z -> Z -> Z) n a b d :=
  bind_o (eval n a d) (fun u => match u with [] => Some [] | _ :: _ => bind_o (eval n b d) (fun v => arith op u v) end).

Lemma eval_lit n v d : eval (S n) (ELit v) d = Some (map VInt v). Proof. reflexivity. Qed.
Lemma eval_var n x d : eval (S n) (EVar x) d = lookup x d. Proof. reflexivity. Qed.
Lemma eval_seq n a b d : eval (S n) (ESeq a b) d = bind_o (eval n a d) (fun u => bind_o (eval n b d) (fun v => Some (u ++ v))).
Proof. reflexivity. Qed.
Lemma eval_add n a b d : eval (S n) (EAdd a b) d = arith_n Z.add n a b d. Proof. reflexivity. Qed.
Lemma eval_mul n a b d : eval (S n) (EMul a b) d = arith_n Z.mul n a b d. Proof. reflexivity. Qed.
Lemma eval_sub n a b d : eval (S n) (ESub a b) d = arith_n Z.sub n a b d. Proof. reflexivity. Qed.
Lemma eval_gt n a b d : eval (S n) (EGt a b) d = bind_o (eval n a d) (fun u => bind_o (eval n b d) (fun v => gt u v)).
Proof. reflexivity. Qed.
Lemma eval_for n x r b d : eval (S n) (EFor x r b) d =
  bind_o (eval n r d) (fun vs => for_each_loop val (fun v => eval n b ((x, [v]) :: d)) vs).
Proof. reflexivity. Qed.
Lemma eval_let n x v b d : eval (S n) (ELet x v b) d = bind_o (eval n v d) (fun u => eval n b ((x, u) :: d)).
Proof. reflexivity. Qed.
Lemma eval_lam n ps body d : eval (S n) (ELam ps body) d = Some [VFun ps body d]. Proof. reflexivity. Qed.
Lemma eval_call n f args d : eval (S n) (ECall f args) d =
  bind_o (fun_of_n n f d) (fun fv => bind_o (opt_all (map (fun a => eval n a d) args)) (fun vs => apply_n n fv vs)).
Proof. reflexivity. Qed.
Definition slot_vals n (args : list (option expr)) d :=
  opt_all (map (fun a => match a with None => Some None | Some a' => option_map Some (eval n a' d) end) args).
Lemma eval_partial n f args d : eval (S n) (EPartial f args) d =
  match fun_of_n n f d with
  | Some (VFun ps body cenv) =>
      bind_o (slot_vals n args d)
        (fun vs => match partial ps vs cenv with None => None | Some (rest, cenv') => Some [VFun rest body cenv'] end)
  | _ => None
  end.
Proof. reflexivity. Qed.
Lemma eval_bang n s args d : eval (S n) (EBang s args) d =
  bind_o (eval n s d) (fun fs => bind_o (opt_all (map (fun a => eval n a d) args)) (fun vs => for_each_loop val (fun f => apply_n n f vs) fs)).
Proof. reflexivity. Qed.
Lemma eval_foreach n s f d : eval (S n) (EForEach s f) d =
  bind_o (eval n s d) (fun vs => bind_o (fun_of_n n f d) (fun fv => for_each_loop val (fun v => apply_n n fv [[v]]) vs)).
Proof. reflexivity. Qed.
Lemma eval_filter n s f d : eval (S n) (EFilter s f) d =
  bind_o (eval n s d) (fun vs => bind_o (fun_of_n n f d) (fun fv => filter_loop val (fun v => truth_of (apply_n n fv [[v]])) vs)).
Proof. reflexivity. Qed.
Lemma eval_foldl n s z f d : eval (S n) (EFoldL s z f) d =
  bind_o (eval n s d) (fun vs => bind_o (eval n z d) (fun zero => bind_o (fun_of_n n f d)
    (fun fv => fold_left_spec val (fun acc v => apply_n n fv [acc; [v]]) vs zero))).
Proof. reflexivity. Qed.
Lemma eval_foldr n s z f d : eval (S n) (EFoldR s z f) d =
  bind_o (eval n s d) (fun vs => bind_o (eval n z d) (fun zero => bind_o (fun_of_n n f d)
    (fun fv => fold_right_spec val (fun v acc => apply_n n fv [[v]; acc]) vs zero))).
Proof. reflexivity. Qed.
Lemma eval_pair n s t f d : eval (S n) (EPair s t f) d =
  bind_o (eval n s d) (fun vs => bind_o (eval n t d) (fun ws => bind_o (fun_of_n n f d)
    (fun fv => pair_spec val (fun v w => apply_n n fv [[v]; [w]]) vs ws))).
Proof. reflexivity. Qed.
Lemma eval_sort n s f d : eval (S n) (ESort s f) d =
  bind_o (eval n s d) (fun vs => bind_o (fun_of_n n f d) (fun fv =>
    bind_o (opt_all (map (fun v => option_map (fun k => (v, k)) (key_of (apply_n n fv [[v]]))) vs))
      (fun decorated => Some (map fst (sort (val * Z) snd decorated))))).
Proof. reflexivity. Qed.

(* ---- relational lemmas ---- *)
Lemma bind_rel : forall {X1 X2 Y1 Y2} (R : X1 -> X2 -> Prop) (S : Y1 -> Y2 -> Prop) o1 o2 k1 k2,
  orel R o1 o2 -> (forall a b, R a b -> orel S (k1 a) (k2 b)) -> orel S (bind_o o1 k1) (bind_o o2 k2).
Proof. intros X1 X2 Y1 Y2 R S o1 o2 k1 k2 [|a b H] K; cbn; [constructor|apply K; exact H]. Qed.

Lemma env_rel_cons : forall x s1 s2 d1 d2, seq_eq s1 s2 -> env_rel d1 d2 -> env_rel ((x, s1) :: d1) ((x, s2) :: d2).
Proof. intros x s1 s2 d1 d2 Hs Hd y. cbn [lookup]. destruct (Nat.eqb x y); [constructor; exact Hs|apply Hd]. Qed.

Lemma bind_all_rel : forall ps a1 a2 d1 d2, Forall2 seq_eq a1 a2 -> env_rel d1 d2 -> env_rel (bind_all ps a1 d1) (bind_all ps a2 d2).
Proof.
  induction ps as [|p ps IH]; intros a1 a2 d1 d2 Ha Hd; [exact Hd|].
  destruct Ha as [|s1 s2 r1 r2 Hs Hr]; [exact Hd|]. cbn [bind_all]. apply IH; [exact Hr|]. apply env_rel_cons; assumption.
Qed.

Lemma opt_all_rel : forall {X Y} (R : X -> Y -> Prop) l1 l2, Forall2 (orel R) l1 l2 -> orel (Forall2 R) (opt_all l1) (opt_all l2).
Proof.
  intros X Y R l1 l2 H. induction H as [|o1 o2 r1 r2 Ho Hr IH]; cbn; [constructor; constructor|].
  destruct Ho as [|a b Hab]; [constructor|]. destruct IH as [|u v Huv]; constructor. constructor; assumption.
Qed.

Lemma seq_eq_app : forall u1 u2 v1 v2, seq_eq u1 u2 -> seq_eq v1 v2 -> seq_eq (u1 ++ v1) (u2 ++ v2).
Proof. intros. apply Forall2_app; assumption. Qed.

Lemma arith_rel : forall op u1 u2 v1 v2, seq_eq u1 u2 -> seq_eq v1 v2 -> res_eq (arith op u1 v1) (arith op u2 v2).
Proof.
  intros op u1 u2 v1 v2 Hu Hv.
  destruct Hu as [|x1 x2 r1 r2 Hx Hr]; [repeat constructor|].
  destruct Hx as [z|b|ps body e1 e2 He]; cbn; try constructor.
  destruct Hr as [|? ? ? ? ? ?]; [|constructor].
  destruct Hv as [|y1 y2 q1 q2 Hy Hq]; [repeat constructor|].
  destruct Hy as [w|b|ps body e1 e2 He]; try constructor.
  destruct Hq; repeat constructor.
Qed.
Lemma gt_rel : forall u1 u2 v1 v2, seq_eq u1 u2 -> seq_eq v1 v2 -> res_eq (gt u1 v1) (gt u2 v2).
Proof.
  intros u1 u2 v1 v2 Hu Hv.
  destruct Hu as [|x1 x2 r1 r2 Hx Hr]; [constructor|].
  destruct Hx as [z|b|ps body e1 e2 He]; cbn; try constructor.
  destruct Hr as [|? ? ? ? ? ?]; [|constructor].
  destruct Hv as [|y1 y2 q1 q2 Hy Hq]; [constructor|].
  destruct Hy as [w|b|ps body e1 e2 He]; try constructor.
  destruct Hq; repeat constructor.
Qed.

Lemma key_of_rel : forall r1 r2, res_eq r1 r2 -> key_of r1 = key_of r2.
Proof.
  intros r1 r2 [|s1 s2 H]; [reflexivity|]. destruct H as [|x1 x2 q1 q2 Hx Hq]; [reflexivity|].
  destruct Hx; cbn; try reflexivity; destruct Hq; reflexivity.
Qed.
Lemma truth_of_rel : forall r1 r2, res_eq r1 r2 -> truth_of r1 = truth_of r2.
Proof.
  intros r1 r2 [|s1 s2 H]; [reflexivity|]. destruct H as [|x1 x2 q1 q2 Hx Hq]; [reflexivity|].
  destruct Hx; cbn; try reflexivity; destruct Hq; reflexivity.
Qed.

Section Loops.
Variables f1 f2 : val -> option sequence.
Hypothesis F : forall v1 v2, veq v1 v2 -> res_eq (f1 v1) (f2 v2).
Lemma for_each_loop_rel : forall s1 s2, seq_eq s1 s2 -> res_eq (for_each_loop val f1 s1) (for_each_loop val f2 s2).
Proof.
  intros s1 s2 H. induction H as [|x1 x2 r1 r2 Hx Hr IH]; cbn; [repeat constructor|].
  destruct (F _ _ Hx) as [|u1 u2 Hu]; [constructor|]. destruct IH as [|w1 w2 Hw]; constructor. apply seq_eq_app; assumption.
Qed.
End Loops.

Lemma filter_loop_rel : forall (p1 p2 : val -> option bool), (forall v1 v2, veq v1 v2 -> p1 v1 = p2 v2) ->
  forall s1 s2, seq_eq s1 s2 -> res_eq (filter_loop val p1 s1) (filter_loop val p2 s2).
Proof.
  intros p1 p2 P s1 s2 H. induction H as [|x1 x2 r1 r2 Hx Hr IH]; cbn; [repeat constructor|].
  rewrite (P _ _ Hx). destruct (p2 x2) as [c|]; [|constructor]. destruct IH as [|w1 w2 Hw]; constructor.
  destruct c; [constructor; assumption|assumption].
Qed.

Lemma fold_left_spec_rel : forall (g1 g2 : sequence -> val -> option sequence),
  (forall a1 a2 v1 v2, seq_eq a1 a2 -> veq v1 v2 -> res_eq (g1 a1 v1) (g2 a2 v2)) ->
  forall s1 s2, seq_eq s1 s2 -> forall z1 z2, seq_eq z1 z2 -> res_eq (fold_left_spec val g1 s1 z1) (fold_left_spec val g2 s2 z2).
Proof.
  intros g1 g2 G s1 s2 H. induction H as [|x1 x2 r1 r2 Hx Hr IH]; intros z1 z2 Hz; cbn; [constructor; exact Hz|].
  apply (bind_rel seq_eq seq_eq); [apply G; assumption|]. intros a b Hab. apply IH. exact Hab.
Qed.
Lemma fold_right_spec_rel : forall (g1 g2 : val -> sequence -> option sequence),
  (forall a1 a2 v1 v2, seq_eq a1 a2 -> veq v1 v2 -> res_eq (g1 v1 a1) (g2 v2 a2)) ->
  forall s1 s2, seq_eq s1 s2 -> forall z1 z2, seq_eq z1 z2 -> res_eq (fold_right_spec val g1 s1 z1) (fold_right_spec val g2 s2 z2).
Proof.
  intros g1 g2 G s1 s2 H. induction H as [|x1 x2 r1 r2 Hx Hr IH]; intros z1 z2 Hz; cbn; [constructor; exact Hz|].
  apply (bind_rel seq_eq seq_eq); [apply IH; exact Hz|]. intros a b Hab. apply G; assumption.
Qed.
Lemma pair_spec_rel : forall (g1 g2 : val -> val -> option sequence),
  (forall v1 v2 w1 w2, veq v1 v2 -> veq w1 w2 -> res_eq (g1 v1 w1) (g2 v2 w2)) ->
  forall s1 s2, seq_eq s1 s2 -> forall t1 t2, seq_eq t1 t2 -> res_eq (pair_spec val g1 s1 t1) (pair_spec val g2 s2 t2).
Proof.
  intros g1 g2 G s1 s2 H. induction H as [|x1 x2 r1 r2 Hx Hr IH]; intros t1 t2 Ht; cbn; [repeat constructor|].
  destruct Ht as [|y1 y2 q1 q2 Hy Hq]; [repeat constructor|].
  apply (bind_rel seq_eq seq_eq); [apply G; assumption|]. intros a b Hab.
  apply (bind_rel seq_eq seq_eq); [apply IH; exact Hq|]. intros a' b' Hab'. constructor. apply seq_eq_app; assumption.
Qed.

(* the stable sort on decorated items with equal keys and equivalent items *)
Definition dec_eq (p q : val * Z) : Prop := veq (fst p) (fst q) /\ snd p = snd q.
Lemma insert_rel : forall x1 x2 l1 l2, dec_eq x1 x2 -> Forall2 dec_eq l1 l2 ->
  Forall2 dec_eq (insert (val * Z) snd x1 l1) (insert (val * Z) snd x2 l2).
Proof.
  intros x1 x2 l1 l2 Hx H. induction H as [|y1 y2 r1 r2 Hy Hr IH]; cbn; [constructor; [exact Hx|constructor]|].
  destruct Hx as [Hx1 Hx2]. destruct Hy as [Hy1 Hy2]. rewrite Hx2, Hy2.
  destruct (snd x2 <=? snd y2)%Z.
  - constructor; [split; assumption|]. constructor; [split; assumption|exact Hr].
  - constructor; [split; assumption|]. apply IH.
Qed.
Lemma sort_rel : forall l1 l2, Forall2 dec_eq l1 l2 -> Forall2 dec_eq (sort (val * Z) snd l1) (sort (val * Z) snd l2).
Proof. intros l1 l2 H. induction H as [|x1 x2 r1 r2 Hx Hr IH]; cbn; [constructor|]. apply insert_rel; assumption. Qed.
Lemma map_fst_rel : forall l1 l2, Forall2 dec_eq l1 l2 -> seq_eq (map fst l1) (map fst l2).
Proof. intros l1 l2 H. induction H as [|x1 x2 r1 r2 [Hx _] Hr IH]; cbn; constructor; assumption. Qed.

Lemma partial_rel : forall ps vs1 vs2 c1 c2, Forall2 (orel seq_eq) vs1 vs2 -> env_rel c1 c2 ->
  orel (fun p q => fst p = fst q /\ env_rel (snd p) (snd q)) (partial ps vs1 c1) (partial ps vs2 c2).
Proof.
  induction ps as [|p ps IH]; intros vs1 vs2 c1 c2 Hv Hc.
  - destruct Hv; cbn; constructor. split; [reflexivity|exact Hc].
  - destruct Hv as [|o1 o2 r1 r2 Ho Hr]; cbn [partial]; [constructor|].
    destruct Ho as [|s1 s2 Hs].
    + destruct (IH r1 r2 c1 c2 Hr Hc) as [|[rest1 d1] [rest2 d2] [E1 E2]]; constructor. cbn in *. split; [f_equal; exact E1|exact E2].
    + apply IH; [exact Hr|]. apply env_rel_cons; assumption.
Qed.

Lemma Forall2_len : forall {X Y} (R : X -> Y -> Prop) l1 l2, Forall2 R l1 l2 -> length l1 = length l2.
Proof. intros X Y R l1 l2 H. induction H; cbn; congruence. Qed.

(* ---- the congruence ---- *)
Section Step.
Variable n : nat.
Hypothesis IH : forall e d1 d2, env_rel d1 d2 -> res_eq (eval n e d1) (eval n e d2).

Lemma apply_rel : forall f1 f2 a1 a2, veq f1 f2 -> Forall2 seq_eq a1 a2 -> res_eq (apply_n n f1 a1) (apply_n n f2 a2).
Proof.
  intros f1 f2 a1 a2 Hf Ha. destruct Hf as [z|b|ps body e1 e2 He]; cbn [apply_n]; try constructor.
  rewrite (Forall2_len _ _ _ Ha). destruct (Nat.eqb (length ps) (length a2)); [|constructor].
  apply IH. apply bind_all_rel; [exact Ha|exact He].
Qed.
Lemma fun_of_rel : forall e d1 d2, env_rel d1 d2 -> orel veq (fun_of_n n e d1) (fun_of_n n e d2).
Proof.
  intros e d1 d2 H. unfold fun_of_n. destruct (IH e d1 d2 H) as [|s1 s2 Hs]; [constructor|].
  destruct Hs as [|x1 x2 r1 r2 Hx Hr]; [constructor|].
  destruct Hx as [z|b|ps body e1 e2 He]; try constructor; destruct Hr; constructor. constructor. exact He.
Qed.
Lemma args_rel : forall (args : list expr) d1 d2, env_rel d1 d2 ->
  orel (Forall2 seq_eq) (opt_all (map (fun a => eval n a d1) args)) (opt_all (map (fun a => eval n a d2) args)).
Proof.
  intros args d1 d2 H. apply opt_all_rel. induction args as [|a r IHr]; cbn; constructor; [apply IH; exact H|exact IHr].
Qed.
Lemma slot_vals_rel : forall args d1 d2, env_rel d1 d2 ->
  orel (Forall2 (orel seq_eq)) (slot_vals n args d1) (slot_vals n args d2).
Proof.
  intros args d1 d2 H. apply opt_all_rel. induction args as [|a r IHr]; cbn; constructor; [|exact IHr].
  destruct a as [a|]; [|repeat constructor]. destruct (IH a d1 d2 H); cbn; repeat constructor. assumption.
Qed.

Lemma eval_step : forall e d1 d2, env_rel d1 d2 -> res_eq (eval (S n) e d1) (eval (S n) e d2).
Proof.
  intros e d1 d2 H. pose proof (fun e => IH e d1 d2 H) as I.
  destruct e as [v|x|a b|a b|a b|a b|a b|x r b|x v b|ps body|f args|f args|s args|s f|s f|s z f|s z f|s t f|s f].
  - rewrite !eval_lit. constructor. apply seq_eq_refl.
  - rewrite !eval_var. apply H.
  - rewrite !eval_seq. apply (bind_rel seq_eq seq_eq); [apply I|]. intros u1 u2 Hu.
    apply (bind_rel seq_eq seq_eq); [apply I|]. intros v1 v2 Hv. constructor. apply seq_eq_app; assumption.
  - rewrite !eval_add. unfold arith_n. apply (bind_rel seq_eq seq_eq); [apply I|]. intros u1 u2 Hu.
    destruct Hu as [|? ? ? ? ? ?]; [repeat constructor|]. apply (bind_rel seq_eq seq_eq); [apply I|]. intros v1 v2 Hv.
    apply arith_rel; [constructor; assumption|assumption].
  - rewrite !eval_mul. unfold arith_n. apply (bind_rel seq_eq seq_eq); [apply I|]. intros u1 u2 Hu.
    destruct Hu as [|? ? ? ? ? ?]; [repeat constructor|]. apply (bind_rel seq_eq seq_eq); [apply I|]. intros v1 v2 Hv.
    apply arith_rel; [constructor; assumption|assumption].
  - rewrite !eval_sub. unfold arith_n. apply (bind_rel seq_eq seq_eq); [apply I|]. intros u1 u2 Hu.
    destruct Hu as [|? ? ? ? ? ?]; [repeat constructor|]. apply (bind_rel seq_eq seq_eq); [apply I|]. intros v1 v2 Hv.
    apply arith_rel; [constructor; assumption|assumption].
  - rewrite !eval_gt. apply (bind_rel seq_eq seq_eq); [apply I|]. intros u1 u2 Hu.
    apply (bind_rel seq_eq seq_eq); [apply I|]. intros v1 v2 Hv. apply gt_rel; assumption.
  - rewrite !eval_for. apply (bind_rel seq_eq seq_eq); [apply I|]. intros u1 u2 Hu.
    apply for_each_loop_rel; [|exact Hu]. intros v1 v2 Hv. apply IH. apply env_rel_cons; [repeat constructor; exact Hv|exact H].
  - rewrite !eval_let. apply (bind_rel seq_eq seq_eq); [apply I|]. intros u1 u2 Hu. apply IH. apply env_rel_cons; assumption.
  - rewrite !eval_lam. repeat constructor. exact H.
  - rewrite !eval_call. apply (bind_rel veq seq_eq); [apply fun_of_rel; exact H|]. intros f1 f2 Hf.
    apply (bind_rel (Forall2 seq_eq) seq_eq); [apply args_rel; exact H|]. intros a1 a2 Ha. apply apply_rel; assumption.
  - rewrite !eval_partial. destruct (fun_of_rel f d1 d2 H) as [|f1 f2 Hf]; [constructor|].
    destruct Hf as [z|b|ps body e1 e2 He]; try constructor.
    apply (bind_rel (Forall2 (orel seq_eq)) seq_eq); [apply slot_vals_rel; exact H|]. intros s1 s2 Hs.
    destruct (partial_rel ps s1 s2 e1 e2 Hs He) as [|[rest1 c1] [rest2 c2] [E1 E2]]; [constructor|].
    cbn in E1, E2. subst rest2. repeat constructor. exact E2.
  - rewrite !eval_bang. apply (bind_rel seq_eq seq_eq); [apply I|]. intros u1 u2 Hu.
    apply (bind_rel (Forall2 seq_eq) seq_eq); [apply args_rel; exact H|]. intros a1 a2 Ha.
    apply for_each_loop_rel; [|exact Hu]. intros v1 v2 Hv. apply apply_rel; assumption.
  - rewrite !eval_foreach. apply (bind_rel seq_eq seq_eq); [apply I|]. intros u1 u2 Hu.
    apply (bind_rel veq seq_eq); [apply fun_of_rel; exact H|]. intros f1 f2 Hf.
    apply for_each_loop_rel; [|exact Hu]. intros v1 v2 Hv. apply apply_rel; [exact Hf|repeat constructor; exact Hv].
  - rewrite !eval_filter. apply (bind_rel seq_eq seq_eq); [apply I|]. intros u1 u2 Hu.
    apply (bind_rel veq seq_eq); [apply fun_of_rel; exact H|]. intros f1 f2 Hf.
    apply filter_loop_rel; [|exact Hu]. intros v1 v2 Hv. apply truth_of_rel. apply apply_rel; [exact Hf|repeat constructor; exact Hv].
  - rewrite !eval_foldl. apply (bind_rel seq_eq seq_eq); [apply I|]. intros u1 u2 Hu.
    apply (bind_rel seq_eq seq_eq); [apply I|]. intros z1 z2 Hz.
    apply (bind_rel veq seq_eq); [apply fun_of_rel; exact H|]. intros f1 f2 Hf.
    apply fold_left_spec_rel; [|exact Hu|exact Hz]. intros a1 a2 v1 v2 Ha Hv. apply apply_rel; [exact Hf|].
    constructor; [exact Ha|]. repeat constructor; exact Hv.
  - rewrite !eval_foldr. apply (bind_rel seq_eq seq_eq); [apply I|]. intros u1 u2 Hu.
    apply (bind_rel seq_eq seq_eq); [apply I|]. intros z1 z2 Hz.
    apply (bind_rel veq seq_eq); [apply fun_of_rel; exact H|]. intros f1 f2 Hf.
    apply fold_right_spec_rel; [|exact Hu|exact Hz]. intros a1 a2 v1 v2 Ha Hv. apply apply_rel; [exact Hf|].
    constructor; [repeat constructor; exact Hv|]. constructor; [exact Ha|constructor].
  - rewrite !eval_pair. apply (bind_rel seq_eq seq_eq); [apply I|]. intros u1 u2 Hu.
    apply (bind_rel seq_eq seq_eq); [apply I|]. intros w1 w2 Hw.
    apply (bind_rel veq seq_eq); [apply fun_of_rel; exact H|]. intros f1 f2 Hf.
    apply pair_spec_rel; [|exact Hu|exact Hw]. intros v1 v2 x1 x2 Hv Hx. apply apply_rel; [exact Hf|].
    constructor; [repeat constructor; exact Hv|]. constructor; [repeat constructor; exact Hx|constructor].
  - rewrite !eval_sort. apply (bind_rel seq_eq seq_eq); [apply I|]. intros u1 u2 Hu.
    apply (bind_rel veq seq_eq); [apply fun_of_rel; exact H|]. intros f1 f2 Hf.
    apply (bind_rel (Forall2 dec_eq) seq_eq).
    + apply opt_all_rel. induction Hu as [|x1 x2 r1 r2 Hx Hr IHu]; cbn [map]; constructor; [|exact IHu].
      rewrite (key_of_rel (apply_n n f1 [[x1]]) (apply_n n f2 [[x2]])) by (apply apply_rel; [exact Hf|repeat constructor; exact Hx]).
      destruct (key_of (apply_n n f2 [[x2]])); cbn; constructor. split; [exact Hx|reflexivity].
    + intros l1 l2 Hl. constructor. apply map_fst_rel. apply sort_rel. exact Hl.
Qed.
End Step.

Theorem eval_congruence : forall n e d1 d2, env_rel d1 d2 -> res_eq (eval n e d1) (eval n e d2).
Proof. induction n as [|n IH]; intros e d1 d2 H; [constructor|]. apply eval_step; assumption. Qed.

(* the call of a partial application against the direct call: the body evaluated with the remaining parameters bound
   on top of the fixed ones gives a result equivalent to the body evaluated with all parameters bound as the direct call
   binds them *)
Lemma fill_length : forall ps slots d rest d' (vs : list sequence),
  partial ps slots d = Some (rest, d') -> length rest = length vs -> length (fill slots vs) = length ps.
Proof.
  induction ps as [|p ps IH]; intros slots d rest d' vs P L.
  - destruct slots; cbn in P; [reflexivity|discriminate].
  - destruct slots as [|[v|] slots]; cbn [partial] in P; [discriminate| |].
    + cbn [fill length]. f_equal. eapply IH; eassumption.
    + destruct (partial ps slots d) as [[rest' d'']|] eqn:P'; [|discriminate]. injection P as <- <-.
      destruct vs as [|v vs]; [discriminate|]. cbn [fill length]. f_equal. cbn [length] in L. injection L as L. eapply IH; eassumption.
Qed.

Theorem partial_call_is_direct_call : forall n ps body slots cenv rest cenv' vs,
  partial ps slots cenv = Some (rest, cenv') -> length rest = length vs -> NoDup ps ->
  res_eq (apply_n n (VFun rest body cenv') vs) (apply_n n (VFun ps body cenv) (fill slots vs)).
Proof.
  intros n ps body slots cenv rest cenv' vs P L N. cbn [apply_n].
  rewrite (fill_length ps slots cenv rest cenv' vs P L), L, !Nat.eqb_refl.
  apply eval_congruence. apply env_eq_rel.
  apply (partial_fill ps slots cenv rest cenv' vs [] P L N). intros p _ [].
Qed.

(* the expression f(a, ?, c)(b): when f evaluates to a function item, the fixed arguments to svals and the call arguments to
   vs, its value is the application of the partial function item to vs *)
Theorem partial_call_expr : forall n f slots args d ps body cenv svals rest cenv' vs,
  fun_of_n n f d = Some (VFun ps body cenv) -> slot_vals n slots d = Some svals ->
  partial ps svals cenv = Some (rest, cenv') -> opt_all (map (fun a => eval (S n) a d) args) = Some vs ->
  eval (S (S n)) (ECall (EPartial f slots) args) d = apply_n (S n) (VFun rest body cenv') vs.
Proof.
  intros n f slots args d ps body cenv svals rest cenv' vs F S P A.
  rewrite eval_call. unfold fun_of_n at 1. rewrite eval_partial, F, S. cbn [bind_o]. rewrite P, A. reflexivity.
Qed.

(* on atomic values the equivalence is equality: a program whose result has no function item returns the same result *)
Definition atomic (s : sequence) : bool := forallb (fun v => match v with VFun _ _ _ => false | _ => true end) s.
Lemma seq_eq_atomic : forall s t, seq_eq s t -> atomic s = true -> s = t.
Proof.
  intros s t H. induction H as [|x y r q Hx Hr IH]; intros A; [reflexivity|].
  cbn in A. apply andb_prop in A as [A1 A2]. f_equal; [|apply IH; exact A2]. destruct Hx; [reflexivity|reflexivity|discriminate].
Qed.
