(* C16 property theorems (statements only; proofs are `exact`/short compositions of HOF.v / Proofs.v lemmas). *)
From Coq Require Import ZArith List Bool Arith Lia Permutation Sorted.
From EP Require Import C16.HOF C16.Model C16.Proofs.
From EP Require Gen.C16Shape.
Import ListNotations.
Open Scope Z_scope.

(* the loops of fn:fold-left / fold-right / for-each-pair are the definitional expansions of F&O, for every item type,
   every sequence and every function item (which may raise an error) *)
Theorem C16_fold_left : forall A f s z, fold_left_loop A f s z = fold_left_spec A f s z.
Proof. exact fold_left_loop_spec. Qed.
Print Assumptions C16_fold_left.
Theorem C16_fold_right : forall A f s z, fold_right_loop A f s z = fold_right_spec A f s z.
Proof. exact fold_right_loop_spec. Qed.
Print Assumptions C16_fold_right.
Theorem C16_for_each_pair : forall A f s t, pair_loop A f s t = pair_spec A f s t.
Proof. exact pair_loop_spec. Qed.
Print Assumptions C16_for_each_pair.
(* for-each = (for $i in $seq return $f($i)), filter = $seq[$f(.)] *)
Theorem C16_for_each_filter : forall A (g : A -> list A) (p : A -> bool) s,
  for_each_loop A (fun x => Some (g x)) s = Some (flat_map g s) /\ filter_loop A (fun x => Some (p x)) s = Some (filter p s).
Proof. intros. split; [apply for_each_total|apply filter_total]. Qed.
Print Assumptions C16_for_each_filter.

(* fn:sort returns a stable, ordered permutation of its input (keys: integers; Python's sorted() is modelled by a
   stable insertion sort) *)
Theorem C16_sort_stable_ordered_permutation : forall A (key : A -> Z) l,
  Permutation (sort A key l) l /\ Sorted (key_le A key) (sort A key l) /\ (forall k, of_key A key k (sort A key l) = of_key A key k l).
Proof. intros. split; [apply sort_perm|]. split; [apply sort_sorted|]. intros k. apply sort_stable. Qed.
Print Assumptions C16_sort_stable_ordered_permutation.

(* each evaluation of a function expression yields an independent function item: every item created in a loop
   returns the binding of its own iteration *)
Theorem C16_closures_independent : forall x vs, call_copies x vs = map Some vs.
Proof. exact call_copies_all. Qed.
Print Assumptions C16_closures_independent.
(* the code before the fix (closure stored on the syntax token): every item returns the last binding *)
Theorem C16_closure_on_token_refuted : forall x v vs,
  call_on_token x (v :: vs) = repeat (Some (last (v :: vs) 0)) (S (length vs)) /\
  (exists ws, call_on_token x ws <> map Some ws).
Proof.
  intros x v vs. split; [apply call_on_token_last|]. exists [1; 2]. vm_compute. discriminate.
Qed.
Print Assumptions C16_closure_on_token_refuted.

(* a dynamic call of an inline function is the direct evaluation of its body with the parameters bound in the scope
   of the function expression *)
Theorem C16_call_is_direct_evaluation : forall n ps body args d vs,
  opt_all (map (fun a => eval (S n) a d) args) = Some vs -> length ps = length vs ->
  eval (S (S n)) (ECall (ELam ps body) args) d = eval (S n) body (bind_all ps vs d).
Proof. exact beta. Qed.
Print Assumptions C16_call_is_direct_evaluation.

(* partial application: calling the partial function item f(a, ?, c) with (b) binds every parameter to the value the
   direct call f(a, b, c) binds it to - the fixed values are those evaluated where the item was created, whatever is
   bound later (E) - so the body is evaluated in an environment with the same bindings (env_eq: equal lookups) *)
Theorem C16_partial_application_binds_as_direct_call : forall ps slots d rest d' vs E,
  partial ps slots d = Some (rest, d') -> length rest = length vs -> NoDup ps ->
  (forall p, In p ps -> ~ In p (map fst E)) ->
  env_eq (bind_all rest vs (E ++ d')) (bind_all ps (fill slots vs) (E ++ d)).
Proof. exact partial_fill. Qed.
Print Assumptions C16_partial_application_binds_as_direct_call.
Example C16_partial_nonvacuous :
  partial [1%nat; 2%nat; 3%nat] [Some [VInt 7]; None; Some [VInt 9]] [] = Some ([2%nat], [(3%nat, [VInt 9]); (1%nat, [VInt 7])]) /\
  fill [Some [VInt 7]; None; Some [VInt 9]] [[VInt 8]] = [[VInt 7]; [VInt 8]; [VInt 9]].
Proof. split; reflexivity. Qed.

Example C16_nonvacuous :
  (* (for $i in (1, 2) return function() { $i }) ! .()  =  (1, 2) *)
  eval 10 (EBang (EFor 0 (ELit [1; 2]) (ELam [] (EVar 0))) []) [] = Some [VInt 1; VInt 2] /\
  (* let $mk := function($n) { function($x) { $x + $n } }, $a := $mk(1), $b := $mk(10) return ($a(0), $b(0), $a(0)) *)
  eval 10 (ELet 0 (ELam [1%nat] (ELam [2%nat] (EAdd (EVar 2) (EVar 1))))
          (ELet 3 (ECall (EVar 0) [ELit [1]]) (ELet 4 (ECall (EVar 0) [ELit [10]])
             (ESeq (ECall (EVar 3) [ELit [0]]) (ESeq (ECall (EVar 4) [ELit [0]]) (ECall (EVar 3) [ELit [0]])))))) []
    = Some [VInt 1; VInt 10; VInt 1] /\
  (* let $f := function($x, $y) { $x - $y } return ($f(?, 1)(5), $f(10, ?)(5)) *)
  eval 10 (ELet 0 (ELam [1%nat; 2%nat] (ESub (EVar 1) (EVar 2)))
          (ESeq (ECall (EPartial (EVar 0) [None; Some (ELit [1])]) [ELit [5]])
                (ECall (EPartial (EVar 0) [Some (ELit [10]); None]) [ELit [5]]))) [] = Some [VInt 4; VInt 5] /\
  (* sort((3, 1, 2, 1), (), function($x) { -$x }) and fold-right *)
  eval 10 (ESort (ELit [3; 1; 2; 1]) (ELam [0%nat] (ESub (ELit [0]) (EVar 0)))) [] = Some [VInt 3; VInt 2; VInt 1; VInt 1] /\
  eval 10 (EFoldR (ELit [1; 2; 3]) (ELit [0]) (ELam [0%nat; 1%nat] (ESub (EVar 0) (EVar 1)))) [] = Some [VInt 2].
Proof. vm_compute. repeat split; reflexivity. Qed.

(* the statements of /repo that the hand model mirrors are present in the source as read on this run (T-data,
   harness/shape.py -> Gen/C16Shape.v) *)
Theorem C16_source_shape : Gen.C16Shape.shape_ok = true.
Proof. reflexivity. Qed.
Print Assumptions C16_source_shape.
