(* C16 — higher-order functions: the generator loops of the implementation against the definitional expansions of
   F&O 3.1 (16.2), generic in the item type and in the function item (a Gallina function that may fail). *)
From Coq Require Import ZArith List Bool Arith Lia Permutation Sorted.
Import ListNotations.

Section HOF.
Variable A : Type.
Definition seq := list A.

(* ---- the loops of _xpath30_functions.py ---- *)
(* for-each: "for item in seq: result = func(item); yield from result" *)
Fixpoint for_each_loop (f : A -> option seq) (s : seq) : option seq :=
  match s with
  | [] => Some []
  | x :: r => match f x with None => None | Some u => match for_each_loop f r with None => None | Some v => Some (u ++ v) end end
  end.
(* filter: "cond = func(item); if cond: yield item" *)
Fixpoint filter_loop (f : A -> option bool) (s : seq) : option seq :=
  match s with
  | [] => Some []
  | x :: r => match f x with None => None | Some c => match filter_loop f r with None => None | Some v => Some (if c then x :: v else v) end end
  end.
(* fold-left: "result = zero; for item in seq: result = func(result, item)" *)
Fixpoint fold_left_loop (f : seq -> A -> option seq) (s : seq) (acc : seq) : option seq :=
  match s with
  | [] => Some acc
  | x :: r => match f acc x with None => None | Some acc' => fold_left_loop f r acc' end
  end.
(* fold-right: "for item in reversed(sequence): result = func(item, result)" *)
Definition fold_right_loop (f : A -> seq -> option seq) (s : seq) (zero : seq) : option seq :=
  fold_left_loop (fun acc x => f x acc) (rev s) zero.
(* for-each-pair: "for item1, item2 in zip(seq1, seq2): yield from func(item1, item2)" *)
Fixpoint pair_loop (f : A -> A -> option seq) (s t : seq) : option seq :=
  match s, t with
  | x :: r, y :: q => match f x y with None => None | Some u => match pair_loop f r q with None => None | Some v => Some (u ++ v) end end
  | _, _ => Some []
  end.

(* ---- F&O definitional expansions (errors propagate) ---- *)
(* fn:for-each($seq, $f) = for $i in $seq return $f($i) ; fn:filter = $seq[$f(.) = true()] *)
Definition bind_o {X Y} (o : option X) (k : X -> option Y) : option Y := match o with None => None | Some x => k x end.
(* fn:fold-left: if empty($seq) then $zero else fold-left(tail($seq), $f($zero, head($seq)), $f) *)
Fixpoint fold_left_spec (f : seq -> A -> option seq) (s : seq) (zero : seq) : option seq :=
  match s with [] => Some zero | x :: r => bind_o (f zero x) (fun z => fold_left_spec f r z) end.
(* fn:fold-right: if empty($seq) then $zero else $f(head($seq), fold-right(tail($seq), $zero, $f)) *)
Fixpoint fold_right_spec (f : A -> seq -> option seq) (s : seq) (zero : seq) : option seq :=
  match s with [] => Some zero | x :: r => bind_o (fold_right_spec f r zero) (fun z => f x z) end.
(* fn:for-each-pair: if exists($seq1) and exists($seq2) then ($f(head1, head2), for-each-pair(tail1, tail2, $f)) else () *)
Fixpoint pair_spec (f : A -> A -> option seq) (s t : seq) : option seq :=
  match s with
  | [] => Some []
  | x :: r => match t with [] => Some [] | y :: q => bind_o (f x y) (fun u => bind_o (pair_spec f r q) (fun v => Some (u ++ v))) end
  end.

Lemma fold_left_loop_spec : forall f s z, fold_left_loop f s z = fold_left_spec f s z.
Proof. intros f. induction s as [|x r IH]; intros z; cbn; [reflexivity|]. unfold bind_o. destruct (f z x); auto. Qed.

Lemma fold_left_loop_app : forall f s t z,
  fold_left_loop f (s ++ t) z = bind_o (fold_left_loop f s z) (fun z' => fold_left_loop f t z').
Proof. intros f. induction s as [|x r IH]; intros t z; cbn; [reflexivity|]. destruct (f z x); cbn; auto. Qed.

(* when no call fails the reversed loop is the right fold; with failures both fail (possibly at different calls) *)
Lemma fold_right_loop_spec : forall f s z, fold_right_loop f s z = fold_right_spec f s z.
Proof.
  intros f. unfold fold_right_loop. induction s as [|x r IH]; intros z; cbn; auto.
  rewrite fold_left_loop_app, IH. destruct (fold_right_spec f r z); cbn; auto. destruct (f x s); auto.
Qed.

Lemma pair_loop_spec : forall f s t, pair_loop f s t = pair_spec f s t.
Proof.
  intros f. induction s as [|x r IH]; intros [|y q]; cbn; auto.
  all: try (destruct (f x y); cbn; auto; rewrite IH; destruct (pair_spec f r q); auto).
Qed.

(* total function items: the loops are the list functions *)
Lemma for_each_total : forall (g : A -> seq) s, for_each_loop (fun x => Some (g x)) s = Some (flat_map g s).
Proof. intros g. induction s as [|x r IH]; cbn; auto. rewrite IH. reflexivity. Qed.
Lemma filter_total : forall (g : A -> bool) s, filter_loop (fun x => Some (g x)) s = Some (filter g s).
Proof. intros g. induction s as [|x r IH]; cbn; auto. rewrite IH. destruct (g x); reflexivity. Qed.
Lemma pair_length : forall (g : A -> A -> A) s t,
  pair_loop (fun x y => Some [g x y]) s t = Some (map (fun p => g (fst p) (snd p)) (combine s t)).
Proof. intros g. induction s as [|x r IH]; intros [|y q]; cbn; auto. rewrite IH. reflexivity. Qed.

(* ---- fn:sort: Python's sorted(items, key=...) is a stable sort; model: stable insertion sort on integer keys ---- *)
Variable key : A -> Z.
Fixpoint insert (x : A) (l : seq) : seq :=
  match l with
  | [] => [x]
  | y :: r => if (key x <=? key y)%Z then x :: l else y :: insert x r
  end.
Fixpoint sort (l : seq) : seq := match l with [] => [] | x :: r => insert x (sort r) end.

Lemma insert_perm : forall x l, Permutation (insert x l) (x :: l).
Proof.
  intros x. induction l as [|y r IH]; cbn; auto. destruct (key x <=? key y)%Z; auto.
  eapply perm_trans; [apply perm_skip; exact IH|apply perm_swap].
Qed.
Lemma sort_perm : forall l, Permutation (sort l) l.
Proof. induction l as [|x r IH]; cbn; auto. eapply perm_trans; [apply insert_perm|]. apply perm_skip. exact IH. Qed.

Definition key_le (a b : A) : Prop := (key a <= key b)%Z.
Lemma insert_sorted : forall x l, Sorted key_le l -> Sorted key_le (insert x l).
Proof.
  intros x. induction l as [|y r IH]; intros S; cbn.
  - repeat constructor.
  - destruct (key x <=? key y)%Z eqn:E.
    + constructor; auto. constructor. unfold key_le. lia.
    + inversion S as [|? ? Sr Hr]; subst. constructor; auto.
      destruct r as [|z r']; cbn.
      * constructor. unfold key_le. lia.
      * destruct (key x <=? key z)%Z eqn:E2; constructor; unfold key_le; try lia. inversion Hr; subst. assumption.
Qed.
Lemma sort_sorted : forall l, Sorted key_le (sort l).
Proof. induction l as [|x r IH]; cbn; [constructor|]. apply insert_sorted. exact IH. Qed.

(* stability: the items of any one key keep their input order *)
Definition of_key (k : Z) (l : seq) : seq := filter (fun a => (key a =? k)%Z) l.
Lemma insert_stable : forall k x l, Sorted key_le l -> of_key k (insert x l) = of_key k (x :: l).
Proof.
  intros k x. induction l as [|y r IH]; intros S; cbn; auto.
  destruct (key x <=? key y)%Z eqn:E; cbn; auto.
  inversion S as [|? ? Sr Hr]; subst. specialize (IH Sr). unfold of_key in IH. cbn in IH. rewrite IH.
  destruct (key y =? k)%Z eqn:Ey, (key x =? k)%Z eqn:Ex; auto. lia.
Qed.
Lemma sort_stable : forall k l, of_key k (sort l) = of_key k l.
Proof.
  intros k. induction l as [|x r IH]; [reflexivity|]. cbn [sort]. rewrite insert_stable by apply sort_sorted.
  unfold of_key in *. cbn. rewrite IH. reflexivity.
Qed.
End HOF.
