From Coq Require Import ZArith List Bool Arith Lia.
From EP Require Import C16.HOF C16.Model.
Import ListNotations.
Open Scope Z_scope.

Lemma call_copies_all : forall x vs, call_copies x vs = map Some vs.
Proof. intros x vs. unfold call_copies, create_copies. rewrite map_map. reflexivity. Qed.

Lemma create_on_token_spec : forall x vs tok,
  create_on_token x vs tok = (repeat O (length vs), match vs with [] => tok | _ => Some [(x, last vs 0)] end).
Proof.
  intros x. induction vs as [|v r IH]; intros tok; [reflexivity|].
  cbn [create_on_token]. rewrite IH. cbn [length repeat]. f_equal. destruct r; reflexivity.
Qed.
Lemma call_on_token_last : forall x v vs, call_on_token x (v :: vs) = repeat (Some (last (v :: vs) 0)) (S (length vs)).
Proof.
  intros x v vs. unfold call_on_token. rewrite create_on_token_spec.
  generalize (last (v :: vs) 0). intros z. cbn [length]. generalize (S (length vs)). intros n.
  induction n as [|n IH]; cbn; auto. f_equal. exact IH.
Qed.

Lemma beta : forall n ps body args d vs,
  opt_all (map (fun a => eval (S n) a d) args) = Some vs -> length ps = length vs ->
  eval (S (S n)) (ECall (ELam ps body) args) d = eval (S n) body (bind_all ps vs d).
Proof.
  intros n ps body args d vs H L. remember (S n) as m eqn:Hm.
  assert (E : eval m (ELam ps body) d = Some [VFun ps body d]) by (subst m; reflexivity).
  cbn [eval]. rewrite E, H, L, Nat.eqb_refl. reflexivity.
Qed.
