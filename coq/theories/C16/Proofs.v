From Coq Require Import ZArith List Bool Arith Lia.
From EP Require Import C16.HOF C16.Model.
Import ListNotations.
Open Scope Z_scope.

Lemma call_copies_all : forall x vs, call_copies x vs = map Some vs.
Proof. intros x vs. unfold call_copies, create_copies. rewrite map_map. reflexivity. Qed.

Lemma create_on_token_spec : forall x vs tok,
  create_on_token x vs tok = (repeat O (length vs), match vs with [] => tok | _ => Some [(x, last vs 0)] end).
Proof.
  intros x. induction vs as [|v r IH]; intros tok; [reflexivity|].
  cbn [create_on_token]. rewrite IH. cbn [length repeat]. f_equal. destruct r; reflexivity.
Qed.
Lemma call_on_token_last : forall x v vs, call_on_token x (v :: vs) = repeat (Some (last (v :: vs) 0)) (S (length vs)).
Proof.
  intros x v vs. unfold call_on_token. rewrite create_on_token_spec.
  generalize (last (v :: vs) 0). intros z. cbn [length]. generalize (S (length vs)). intros n.
  induction n as [|n IH]; cbn; auto. f_equal. exact IH.
Qed.

Lemma beta : forall n ps body args d vs,
  opt_all (map (fun a => eval (S n) a d) args) = Some vs -> length ps = length vs ->
  eval (S (S n)) (ECall (ELam ps body) args) d = eval (S n) body (bind_all ps vs d).
Proof.
  intros n ps body args d vs H L. remember (S n) as m eqn:Hm.
  assert (E : eval m (ELam ps body) d = Some [VFun ps body d]) by (subst m; reflexivity).
  cbn [eval]. rewrite E, H, L, Nat.eqb_refl. reflexivity.
Qed.

(* ---- partial application: the bindings of the call of a partial application and of the direct call agree ---- *)
Lemma bind_all_ext : forall ps args e1 e2, env_eq e1 e2 -> env_eq (bind_all ps args e1) (bind_all ps args e2).
Proof.
  induction ps as [|p ps IH]; intros args e1 e2 H; [exact H|].
  destruct args as [|a args]; [exact H|]. cbn [bind_all]. apply IH.
  intros x. cbn [lookup]. destruct (Nat.eqb p x); [reflexivity|apply H].
Qed.

Lemma lookup_app_swap : forall (E : env) p v d, ~ In p (map fst E) ->
  env_eq (E ++ (p, v) :: d) ((p, v) :: E ++ d).
Proof.
  induction E as [|[q w] E IH]; intros p v d H x; [reflexivity|].
  cbn [app lookup]. cbn [map fst In] in H.
  destruct (Nat.eqb q x) eqn:Eq.
  - destruct (Nat.eqb p x) eqn:Ep; [|reflexivity].
    apply Nat.eqb_eq in Eq, Ep. subst. tauto.
  - rewrite (IH p v d) by tauto. reflexivity.
Qed.

Lemma partial_fill : forall ps slots d rest d' vs E,
  partial ps slots d = Some (rest, d') -> length rest = length vs -> NoDup ps ->
  (forall p, In p ps -> ~ In p (map fst E)) ->
  env_eq (bind_all rest vs (E ++ d')) (bind_all ps (fill slots vs) (E ++ d)).
Proof.
  induction ps as [|p ps IH]; intros slots d rest d' vs E H L N D.
  - destruct slots; cbn in H; [|discriminate]. injection H as <- <-. intros x. reflexivity.
  - destruct slots as [|[v|] slots]; cbn [partial] in H; [discriminate| |].
    + cbn [fill bind_all]. inversion N as [|? ? Np Nps]; subst.
      intros x. rewrite (IH slots ((p, v) :: d) rest d' vs E H L Nps) by (intros q Hq; apply D; right; exact Hq).
      apply bind_all_ext. apply lookup_app_swap. apply D. left. reflexivity.
    + destruct (partial ps slots d) as [[rest' d'']|] eqn:P; [|discriminate]. injection H as <- <-.
      destruct vs as [|v vs]; [discriminate|]. cbn [length] in L. injection L as L.
      cbn [fill bind_all]. inversion N as [|? ? Np Nps]; subst.
      apply (IH slots d rest' d'' vs ((p, v) :: E) P L Nps).
      intros q Hq [Hq'|Hq']; [cbn in Hq'; subst; tauto|]. apply (D q); [right; exact Hq|exact Hq'].
Qed.
