(* C16 property theorems: fn:sort on typed atomic values *)
From Coq Require Import ZArith List Bool Sorted Permutation.
From EP Require Import C15.Keys C08.Typed C16.HOF C16.TypedSort.
Import ListNotations.
Open Scope Z_scope.

(* when the values belong to one ordered class the result is a stable, ordered permutation of the input *)
Theorem C16_typed_sort : forall l r, sort_typed l = Some r ->
  Permutation r l /\ Sorted (key_le av av_key) r /\ (forall k, of_key av av_key k r = of_key av av_key k l).
Proof.
  intros l r H. unfold sort_typed in H. destruct (sortable l); [|discriminate]. injection H as <-.
  split; [apply sort_perm|]. split; [apply sort_sorted|]. intros k. apply sort_stable.
Qed.
Print Assumptions C16_typed_sort.
(* XPTY0004 exactly when two values of different classes, or of a class without an order, have to be compared *)
Theorem C16_typed_sort_error : forall x y r,
  sort_typed (x :: y :: r) = None <->
  (class_of x = 0 \/ exists z, In z (y :: r) /\ class_of z <> class_of x).
Proof.
  intros x y r. unfold sort_typed. cbn [sortable].
  destruct (class_of x =? 0) eqn:E0; cbn [negb andb].
  - split; [intros _; left; apply Z.eqb_eq; exact E0|reflexivity].
  - destruct (forallb (fun y0 => class_of y0 =? class_of x) (y :: r)) eqn:F.
    + split; [discriminate|]. intros [H|(z & Hz & Hc)].
      * apply Z.eqb_neq in E0. contradiction.
      * rewrite forallb_forall in F. specialize (F z Hz). apply Z.eqb_eq in F. contradiction.
    + split; [|reflexivity]. intros _. right.
      assert (G : exists z, In z (y :: r) /\ (class_of z =? class_of x) = false).
      { clear -F. induction (y :: r) as [|a l IH]; cbn in F; [discriminate|].
        destruct (class_of a =? class_of x) eqn:E; [|exists a; split; [left; reflexivity|exact E]].
        cbn in F. destruct (IH F) as (z & Hz & Hc). exists z. split; [right; exact Hz|exact Hc]. }
      destruct G as (z & Hz & Hc). exists z. split; [exact Hz|]. apply Z.eqb_neq. exact Hc.
Qed.
Print Assumptions C16_typed_sort_error.
(* the integer key orders numeric values as their exact rational values (denominators dividing 10), NaN first *)
Theorem C16_typed_key_order : forall t u n1 d1 n2 d2, den10 (NFin n1 d1) = true -> den10 (NFin n2 d2) = true ->
  nval_lt (NFin n1 d1) (NFin n2 d2) = (av_key (ANum t (NFin n1 d1)) <? av_key (ANum u (NFin n2 d2))).
Proof. exact key_embeds_numeric_order. Qed.
Print Assumptions C16_typed_key_order.
Example C16_typed_sort_nonvacuous :
  sort_typed [ANum TInteger (NFin 3 1); ANum TDouble NNaN; ANum TDecimal (NFin 15 10); ANum TFloat (NFin 1 2)] =
    Some [ANum TDouble NNaN; ANum TFloat (NFin 1 2); ANum TDecimal (NFin 15 10); ANum TInteger (NFin 3 1)] /\
  sort_typed [ABool true; ABool false] = Some [ABool false; ABool true] /\
  sort_typed [AUntyped 5 None; AStr false 4] = Some [AStr false 4; AUntyped 5 None] /\
  sort_typed [ANum TInteger (NFin 1 1); ABool true] = None /\ sort_typed [AEq 4 2001; AEq 4 2000] = None.
Proof. vm_compute. repeat split; reflexivity. Qed.
