(* C16 — function items: an executable reference semantics (lexical closures, partial application, the higher-order
   functions by their F&O definitional expansions) used as the oracle of the correspondence, and the token-store
   model of closure creation (before / after the fix of _InlineFunction.evaluate). *)
From Coq Require Import ZArith List Bool Arith Lia.
From EP Require Import C16.HOF.
Import ListNotations.
Open Scope Z_scope.

Inductive expr :=
| ELit (v : list Z)
| EVar (x : nat)
| ESeq (a b : expr)
| EAdd (a b : expr) | EMul (a b : expr) | ESub (a b : expr)
| EGt (a b : expr)                                   (* a gt b *)
| EFor (x : nat) (r b : expr)
| ELet (x : nat) (v b : expr)
| ELam (ps : list nat) (body : expr)                 (* function($p1, ...) { body } *)
| ECall (f : expr) (args : list expr)                (* f(args) *)
| EPartial (f : expr) (args : list (option expr))    (* f(?, a, ...) *)
| EBang (s : expr) (args : list expr)                (* s ! .(args) *)
| EForEach (s f : expr) | EFilter (s f : expr)
| EFoldL (s z f : expr) | EFoldR (s z f : expr) | EPair (s t f : expr)
| ESort (s f : expr).                                (* sort(s, (), f) *)

Inductive val :=
| VInt (z : Z)
| VBool (b : bool)
| VFun (ps : list nat) (body : expr) (env : list (nat * list val)).
Definition sequence := list val.
Definition env := list (nat * sequence).

Fixpoint lookup (x : nat) (d : env) : option sequence :=
  match d with [] => None | (y, v) :: r => if Nat.eqb y x then Some v else lookup x r end.
Fixpoint bind_all (ps : list nat) (args : list sequence) (d : env) : env :=
  match ps, args with p :: ps', a :: args' => bind_all ps' args' ((p, a) :: d) | _, _ => d end.

Definition arith (op : Z -> Z -> Z) (a b : sequence) : option sequence :=
  match a, b with
  | [], _ => Some []
  | [VInt _], [] => Some []
  | [VInt x], [VInt y] => Some [VInt (op x y)]
  | _, _ => None
  end.
Definition gt (a b : sequence) : option sequence :=
  match a, b with
  | [VInt x], [VInt y] => Some [VBool (y <? x)]
  | _, _ => None
  end.
Fixpoint opt_all {X} (l : list (option X)) : option (list X) :=
  match l with
  | [] => Some []
  | None :: _ => None
  | Some x :: r => match opt_all r with None => None | Some xs => Some (x :: xs) end
  end.
(* split the parameters of a partial application: fixed (bound now) / remaining *)
Fixpoint partial (ps : list nat) (args : list (option sequence)) (d : env) : option (list nat * env) :=
  match ps, args with
  | [], [] => Some ([], d)
  | p :: ps', None :: args' => match partial ps' args' d with None => None | Some (rest, d') => Some (p :: rest, d') end
  | p :: ps', Some v :: args' => partial ps' args' ((p, v) :: d)
  | _, _ => None
  end.
(* the arguments of the equivalent direct call: the fixed values in their slots, the call arguments in the placeholders *)
Fixpoint fill (slots : list (option sequence)) (vs : list sequence) : list sequence :=
  match slots with
  | [] => []
  | Some v :: r => v :: fill r vs
  | None :: r => match vs with v :: vs' => v :: fill r vs' | [] => [] end
  end.

Definition env_eq (e1 e2 : env) : Prop := forall x, lookup x e1 = lookup x e2.

Definition key_of (s : option sequence) : option Z := match s with Some [VInt k] => Some k | _ => None end.
Definition truth_of (s : option sequence) : option bool := match s with Some [VBool b] => Some b | _ => None end.

Fixpoint eval (n : nat) (e : expr) (d : env) {struct n} : option sequence :=
  match n with
  | O => None
  | S n =>
    let apply (f : val) (args : list sequence) : option sequence :=
      match f with
      | VFun ps body cenv => if Nat.eqb (length ps) (length args) then eval n body (bind_all ps args cenv) else None
      | _ => None
      end in
    let fun_of (e : expr) : option val := match eval n e d with Some [VFun ps b c] => Some (VFun ps b c) | _ => None end in
    match e with
    | ELit v => Some (map VInt v)
    | EVar x => lookup x d
    | ESeq a b => match eval n a d with None => None | Some u => match eval n b d with None => None | Some v => Some (u ++ v) end end
    | EAdd a b => match eval n a d with None => None | Some [] => Some [] | Some u => match eval n b d with None => None | Some v => arith Z.add u v end end
    | EMul a b => match eval n a d with None => None | Some [] => Some [] | Some u => match eval n b d with None => None | Some v => arith Z.mul u v end end
    | ESub a b => match eval n a d with None => None | Some [] => Some [] | Some u => match eval n b d with None => None | Some v => arith Z.sub u v end end
    | EGt a b => match eval n a d with None => None | Some u => match eval n b d with None => None | Some v => gt u v end end
    | EFor x r b =>
        match eval n r d with None => None | Some vs => for_each_loop val (fun v => eval n b ((x, [v]) :: d)) vs end
    | ELet x v b => match eval n v d with None => None | Some u => eval n b ((x, u) :: d) end
    | ELam ps body => Some [VFun ps body d]                  (* the closure captures the bindings in scope *)
    | ECall f args =>
        match fun_of f with
        | None => None
        | Some fv => match opt_all (map (fun a => eval n a d) args) with None => None | Some vs => apply fv vs end
        end
    | EPartial f args =>
        match fun_of f with
        | Some (VFun ps body cenv) =>
            match opt_all (map (fun a => match a with None => Some None | Some a' => option_map Some (eval n a' d) end) args) with
            | None => None
            | Some vs => match partial ps vs cenv with None => None | Some (rest, cenv') => Some [VFun rest body cenv'] end
            end
        | _ => None
        end
    | EBang s args =>
        match eval n s d with
        | None => None
        | Some fs => match opt_all (map (fun a => eval n a d) args) with
                     | None => None
                     | Some vs => for_each_loop val (fun f => apply f vs) fs
                     end
        end
    | EForEach s f =>
        match eval n s d, fun_of f with Some vs, Some fv => for_each_loop val (fun v => apply fv [[v]]) vs | _, _ => None end
    | EFilter s f =>
        match eval n s d, fun_of f with
        | Some vs, Some fv => filter_loop val (fun v => truth_of (apply fv [[v]])) vs
        | _, _ => None
        end
    | EFoldL s z f =>
        match eval n s d, eval n z d, fun_of f with
        | Some vs, Some zero, Some fv => fold_left_spec val (fun acc v => apply fv [acc; [v]]) vs zero
        | _, _, _ => None
        end
    | EFoldR s z f =>
        match eval n s d, eval n z d, fun_of f with
        | Some vs, Some zero, Some fv => fold_right_spec val (fun v acc => apply fv [[v]; acc]) vs zero
        | _, _, _ => None
        end
    | EPair s t f =>
        match eval n s d, eval n t d, fun_of f with
        | Some vs, Some ws, Some fv => pair_spec val (fun v w => apply fv [[v]; [w]]) vs ws
        | _, _, _ => None
        end
    | ESort s f =>
        match eval n s d, fun_of f with
        | Some vs, Some fv =>
            match opt_all (map (fun v => option_map (fun k => (v, k)) (key_of (apply fv [[v]]))) vs) with
            | None => None
            | Some decorated => Some (map fst (sort (val * Z) snd decorated))
            end
        | _, _ => None
        end
    end
  end.

(* ---- closure creation on the syntax token: one function expression evaluated once per binding of a for loop ----
   before the fix: evaluate() stores variables.copy() on the token and returns the token; every function item is the
   token, so a later call reads the variables stored last.  after: evaluate() returns a copy with its own variables. *)
Definition captured := list (nat * Z).
(* the loop "for v in vs: variables[x] = v; item = function_expr.evaluate()", then every collected item is called
   (the body returns $x) *)
Fixpoint create_on_token (x : nat) (vs : list Z) (tok : option captured) : list nat * option captured :=
  match vs with
  | [] => ([], tok)
  | v :: r => let '(items, tok') := create_on_token x r (Some [(x, v)]) in (O :: items, tok')   (* item = the token itself *)
  end.
Definition call_on_token (x : nat) (vs : list Z) : list (option Z) :=
  let '(items, tok) := create_on_token x vs None in
  map (fun _ => match tok with Some ((_, v) :: _) => Some v | _ => None end) items.
Definition create_copies (x : nat) (vs : list Z) : list captured := map (fun v => [(x, v)]) vs.
Definition call_copies (x : nat) (vs : list Z) : list (option Z) :=
  map (fun c => match c with (_, v) :: _ => Some v | _ => None end) (create_copies x vs).
